#!/usr/bin/env python3
"""Regenerates /verif/MANIFEST.json from the table below (claimed checks) + properties.jsonl."""
import json, os
ROOT = os.path.dirname(os.path.dirname(os.path.abspath(__file__)))
props = [json.loads(l)['id'] for l in open(os.path.join(ROOT, 'properties.jsonl'))]

LEVEL = ("bounded symbolic model checking of the real Go code: the harness and every library function it reaches are executed "
         "symbolically from go/ssa; every assertion and every implicit panic / out-of-bounds / write-protection site is decided by an SMT solver "
         "for ALL values of the symbolic inputs inside the stated shape bounds; sat answers are replayed natively before being reported")
NOTE = ("trusted: go/ssa lowering, the symgo interpreter (cross-checked by native witness replays on every run), cvc5/z3, the harness oracles; "
        "bounds (shapes, lengths, call-string lengths) are listed in the evidence file; portable Go kernels only; one goroutine schedule")

CLAIMED = {
    # id: (design section, technique)
    "C01": ("§5 C01", "SSA symbolic execution + SMT (bit-vectors): container kernels x kind pairings, sorted-array kernels, Bitmap drivers; pointwise set-algebra oracle"),
    "C02": ("§5 C02", "SSA symbolic execution + SMT: one inductive step per mutator from an arbitrary well-formed symbolic state, compared with a description-level plain-set model"),
    "C03": ("§5 C03", "SSA symbolic execution + SMT: every scalar query on symbolic bitmaps against counting/membership oracles over descriptions; read-only-ness by representation snapshot"),
    "C04": ("§5 C04", "SSA symbolic execution + SMT: the iterator state machines driven over symbolic bitmaps (exhaustive walks, HasNext/Next/PeekNext/AdvanceIfNeeded call strings against a model cursor, NextMany buffer-length sequences, unset windows, Ranges) with order/membership/count oracles"),
    "C05": ("§5 C05", "SSA symbolic execution + SMT over a byte-addressed memory model: WriteTo/ToBytes/MarshalBinary of symbolic bitmaps through bytes.Buffer and the unsafe slice views, decoded by each entry point (incl. chunked readers, reused receivers, trailing bytes, failing writers) and compared pointwise"),
    "C06": ("§5 C06", "SSA symbolic execution + SMT: an independent harness-side codec written from the format description; library bytes parsed field by field (cookie, count, run flags, descriptors, offsets, payload forms), and spec-conformant streams with every legal encoder choice read by the library and compared pointwise"),
    "C07": ("§5 C07", "SSA symbolic execution + SMT: every producing operation from inputs with symbolic keys / copy-on-write flags / shared clone sources, followed by one symbolic mutation of one participant; all other bitmaps compared cell-by-cell with representation snapshots; argument slices compared; Par* under one deterministic goroutine schedule"),
    "C08": ("§5 C08", "SSA symbolic execution + SMT with a write-protected caller buffer (any store into it traps in the VM): zero-copy loads followed by call strings of all mutators / in-place set operations / derived bitmaps; detach then scribble over the buffer"),
    "C16": ("§5 C16", "SSA symbolic execution + SMT: AddOffset/AddOffset64 with symbolic signed offsets (pointwise shifted membership + cardinality), static Flip vs description and vs in-place Flip, ToDense/WriteDenseTo/DenseSize bitwise, FromDense for word-slice lengths around 1024 with write-protected caller words when not copied"),
    "C17": ("§5 C17", "SSA symbolic execution + SMT on package roaring64 over the REAL 32-bit layer: set algebra (static/in-place/self), point/bulk/range mutation across 2^32 boundaries, queries, iterators, aggregates (ParOr under one schedule) against a plain-set model of uint64 with free probes; value-semantics step after each algebra op"),
    "C18": ("§5 C18", "SSA symbolic execution + SMT: 64-bit WriteTo/ToBytes/MarshalBinary -> ReadFrom/FromUnsafeBytes/UnmarshalBinary round trips with byte accounting, every proper prefix, fully symbolic byte strings and corrupted bucket count / key / inner header (panic, out-of-buffer and oversized-allocation sites are obligations)"),
    "C19": ("§5 C19", "SSA symbolic execution + SMT on both BSI implementations (real math/big, real goroutine fan-out under one schedule): an index built by symbolic SetValue calls, one update step (SetValue/SetBigValue/SetMany/ClearValues/Retain/Clone/Marshal/WriteTo/Increment/ParOr/Add), compared with an association-list model on every column"),
    "C20": ("§5 C20", "SSA symbolic execution + SMT on both BSI implementations: CompareValue/CompareBigValue (all operators), CompareBSI, BatchEqual/BatchEqualValues, MinMax(Big), Sum(BigValues), Transpose/IntersectAndTranspose/TransposeWithCounts with symbolic in-range constants, found-sets and parallelism 0..2 against the predicate over the model; results mutated and re-queried"),
    "C09": ("§5 C09", "SSA symbolic execution + SMT: invariant-only mode of the C01/C02 harness families from states satisfying the full invariant; wf(result) and the real Validate()==nil asserted after every operation"),
    "C10": ("§5 C10", "SSA symbolic execution + SMT: every decoder on FULLY symbolic byte strings of every length up to the bound (every Go panic / out-of-buffer access / oversized allocation is a proof obligation; attacker-sized buffers are modelled lazily), every proper prefix of valid streams, V=>I on unconstrained representations, MustReadFrom vs ReadFrom"),
    "C11": ("§5 C11", "SSA symbolic execution + SMT: the eight aggregates on lists of symbolic bitmaps (empty, singleton, duplicate objects, empty members; keys over the whole key space incl. 0xFFFF) against the pointwise fold; Par* with worker counts 0..3 under one deterministic goroutine schedule"),
    "C13": ("§5 C13", "SSA symbolic execution + SMT on the flat memory model (the unsafe struct arena of frozenView is executed as is): three frozen writers byte-compared, sizes, too-small buffers, independent CRoaring-layout parse, FrozenView/MustFrozenView of the write-protected bytes compared pointwise"),
    "C14": ("§5 C14", "SSA symbolic execution + SMT (bit-vectors and cvc5 integer encoding): the real size accounting and BoundSerializedSizeInBytes executed over SYMBOLIC cardinalities/run counts satisfying the invariant (n <= 8/12 chunks), plus short real histories"),
    "C15": ("§5 C15", "SSA symbolic execution + SMT: neighbour queries with free target and free probe (nearest-ness is universally quantified); per-kind helpers separately"),
}
NA = {
    "C12": "schedules/data races of the Go runtime cannot be encoded as SMT inputs by this SSA encoder, and a schedule counterexample could not be replayed (DESIGN §6)",
}
# thorough tier registered only where it ran clean (exit 0) on the unchanged tree in this session; for the other properties the
# tier-1 instances exist (./check <id> thorough) but some of them exceed their 20-minute budget, so only quick is registered
THOROUGH_OK = set(open(os.path.join(ROOT, 'tools', 'thorough_ok.txt')).read().split())
checks = []
for pid in props:
    if pid in CLAIMED:
        ref, tech = CLAIMED[pid]
        c = {
            "property_id": pid,
            "quick_cmd": f"./check {pid} quick",
            "thorough_cmd": f"./check {pid} thorough",
            "evidence_file": f"/verif/evidence/{pid}.json",
            "replay_cmd_template": "./check --replay {path}",
            "engine": "symgo",
            "level_claimed": {"category": "model_checking", "text": LEVEL, "design_ref": ref},
            "level_note": NOTE,
            "technique": tech,
        }
        if pid not in THOROUGH_OK:
            del c["thorough_cmd"]
        checks.append(c)
na = []
for pid in props:
    if pid not in CLAIMED:
        na.append({"property_id": pid, "reason": NA.get(pid, "check not yet registered in this revision (harness under construction, see DESIGN.md §5)")})
m = {
    "version": 1,
    "setup_cmd": "./build.sh",
    "hooks": {"guard": "verif",
              "enable": "harness files (//go:build verif) live in /verif/harness and are injected by overlay (go/packages Overlay for the encoder, go test -overlay for native replay); /repo carries no hook code",
              "baseline_off_cmd": "cd /repo && GOFLAGS=-mod=mod GOPROXY=off go test -vet=off -count=1 ./...",
              "source_commits": [], "add_only": True},
    "engines": [{"name": "symgo", "path": "engine/", "serves_properties": sorted(CLAIMED),
                 "kind_free_text": "bounded symbolic execution of /repo's go/ssa (regenerated from the working tree on every run) with SMT back ends cvc5 1.0 + z3 5.1.0 racing"}],
    "checks": checks,
    "not_applicable": na,
    "notes": "exit codes: 0 held within bounds (KNOWN-FINDING lines possible), 1 VIOLATION (natively replayed), 3 inconclusive / engine mismatch",
}
json.dump(m, open(os.path.join(ROOT, 'MANIFEST.json'), 'w'), indent=1)
print("claimed:", sorted(CLAIMED))
