#!/bin/bash
# usage: run_seed.sh <seed dir name under /verif/seeded> <property to check> [tier]
# Applies the seeded change to /repo, runs the property's check, reverts /repo. Prints the verdict line.
S=/verif/seeded/$1; P=$2; T=${3:-quick}
cd /repo && git apply "$S/patch.diff" || { echo "$1: patch does not apply"; exit 2; }
cd /verif && ./check $P $T > /tmp/seedrun_$1_$P.log 2>&1; rc=$?
git -C /repo checkout -- .
echo "$1 vs $P/$T: exit=$rc $(grep -c '^VIOLATION' /tmp/seedrun_$1_$P.log) violation lines; $(grep '^\[violation\]' /tmp/seedrun_$1_$P.log | head -2 | cut -c1-200)"
