#!/bin/bash
# usage: import_seed2.sh <property>   -- confirm round-3 seeds a,b from /tmp/seedout3/<property> and store them as <property>e, <property>f
P=$1; D=/tmp/seedout3/$P
for x in a b; do
  n=$(echo $x | tr ab ef)
  [ -f $D/$x.diff ] || { echo "$P$x: no diff"; continue; }
  /verif/tools/confirm_seed.sh $D $x /tmp/seedout3/$P/confirm_$x.txt
  out=$(cat /tmp/seedout3/$P/confirm_$x.txt)
  okA=$(sed -n '/demo WITHOUT/,/patch/p' <<<"$out" | grep -c '^ok')
  failB=$(sed -n '/demo WITH change/,/suite WITH/p' <<<"$out" | grep -c 'FAIL\|panic')
  suiteOK=$(sed -n '/suite WITH/,$p' <<<"$out" | grep -c '^ok'); suiteFail=$(sed -n '/suite WITH/,$p' <<<"$out" | grep -c 'FAIL')
  applied=$(grep -c 'patch applied' <<<"$out")
  if [ $okA -ge 1 ] && [ $failB -ge 1 ] && [ $suiteOK -ge 3 ] && [ $suiteFail -eq 0 ] && [ $applied -eq 1 ]; then
    T=/verif/seeded/$P$n; mkdir -p $T
    cp $D/$x.diff $T/patch.diff; cp $D/${x}_demo_test.go $T/demo_test.go.txt
    python3 - "$D/meta.json" "$x" "$P" "$T/meta.json" "/tmp/seedout3/$P/confirm_$x.txt" <<'PY'
import json,sys
m=json.load(open(sys.argv[1]))[sys.argv[2]]
out={"property":sys.argv[3],"files":m.get("files"),"what":m.get("what"),"needs":m.get("needs"),
 "author":"independent sub-agent given only the property text and a scratch worktree (round 3)",
 "confirmed":{"how":"tools/confirm_seed.sh in a scratch worktree of /repo HEAD: demo without change, git apply, demo with change, full suite with change (-skip 'ExistenceAuthority|TestLargeFile')","output":open(sys.argv[5]).read()}}
json.dump(out,open(sys.argv[4],'w'),indent=1)
PY
    echo "$P$n: confirmed and stored"
  else
    echo "$P$x: NOT confirmed (okA=$okA failB=$failB suiteOK=$suiteOK suiteFail=$suiteFail applied=$applied)"
  fi
done
