#!/bin/bash
# usage: try_seed.sh <patch file> <property> [tier] [symgo flags...]
# Runs a property's check against a scratch worktree of /repo HEAD with the patch applied (VERIF_REPO), so /repo itself is
# never touched; evidence and counterexamples of such runs go to a scratch directory, not to /verif/evidence.
P=$(readlink -f "$1"); ID=$2; T=${3:-quick}; shift 3 2>/dev/null
WT=$(mktemp -d /tmp/tryseed-XXXXXX)
git -C /repo worktree add -q --detach "$WT" HEAD || exit 2
( cd "$WT" && git apply "$P" ) || { echo "patch does not apply"; git -C /repo worktree remove --force "$WT"; exit 2; }
cd /verif
export VERIF_ROOT=/verif GOPROXY=off VERIF_REPO="$WT" VERIF_EVIDENCE_DIR="$WT/.verif-evidence"
unset GOFLAGS GOTOOLCHAIN
./bin/symgo run -property "$ID" -tier "$T" -v "$@" > /tmp/tryseed_$(basename $(dirname "$P"))_$ID.log 2>&1; rc=$?
L=/tmp/tryseed_$(basename $(dirname "$P"))_$ID.log
echo "$(basename $(dirname "$P")) vs $ID/$T: exit=$rc violations=$(grep -c '^VIOLATION' $L) inconclusive=$(grep -c '^INCONCLUSIVE' $L); $(grep '^\[violation\]' $L | head -1 | cut -c1-220)"
git -C /repo worktree remove --force "$WT"; rm -rf "$WT"
