#!/bin/bash
# usage: confirm_seed.sh <dir with X.diff, X_demo_test.go> <X> <outfile>
# Confirms in a scratch worktree: patch applies, suite passes with it, demo fails with it and passes without it.
set -u
D=$1; X=$2; OUT=$3
WT=$(mktemp -d /tmp/confirm-XXXXXX)
git -C /repo worktree add -q --detach "$WT" HEAD || { echo "worktree failed" > "$OUT"; exit 1; }
export GOFLAGS=-mod=mod GOPROXY=off
cd "$WT"
demo=$(ls "$D"/${X}_demo_test.go 2>/dev/null || ls "$D"/demo_test.go)
sub=.
if grep -q "^package roaring64" "$demo"; then sub=roaring64; fi
if grep -qi "BitSliceIndexing" "$demo" && ! grep -q "^package roaring64" "$demo"; then if head -30 "$demo" | grep -qi "BitSliceIndexing/"; then sub=BitSliceIndexing; fi; fi
{
echo "seed $D $X (demo in ./$sub)"
cp "$demo" "$sub/zz_seed_demo_test.go"
echo "== demo WITHOUT change:"; go test -vet=off -count=1 -run 'Seed|Demo|C[0-9][0-9]' ./$sub 2>&1 | tail -3
if git apply "$D/$X.diff" 2>&1; then echo "== patch applied"; else echo "== PATCH DOES NOT APPLY"; fi
echo "== demo WITH change:"; go test -vet=off -count=1 -run 'Seed|Demo|C[0-9][0-9]' ./$sub 2>&1 | grep -E "^(--- FAIL|FAIL|ok|panic)" | head -5
rm -f "$sub/zz_seed_demo_test.go"
echo "== suite WITH change:"; go test -vet=off -count=1 -skip 'ExistenceAuthority|TestLargeFile' ./... 2>&1 | grep -E "^(ok|FAIL|---)" | head -8
} > "$OUT" 2>&1
cd /; git -C /repo worktree remove --force "$WT"; rm -rf "$WT"
