#!/bin/bash
# usage: run_all.sh quick|thorough [ids...]  -- runs the registered checks one after the other, prints exit codes and wall time
T=${1:-quick}; shift
IDS=${@:-C01 C02 C03 C04 C05 C06 C07 C08 C09 C10 C11 C13 C14 C15 C16 C17 C18 C19 C20}
cd /verif
for id in $IDS; do
  s=$(date +%s)
  ./check $id $T > /tmp/runall_${id}_$T.log 2>&1; rc=$?
  e=$(date +%s)
  echo "$id $T exit=$rc wall=$((e-s))s $(grep -c '^KNOWN-FINDING' /tmp/runall_${id}_$T.log) known; $(tail -1 /tmp/runall_${id}_$T.log | cut -c1-160)"
done
