#!/bin/sh
# Builds the symgo engine from vendored sources (offline).
set -e
cd "$(dirname "$0")/engine"
export GOTOOLCHAIN=local PATH=/opt/veriftools/go1.26.8/bin:$PATH GOFLAGS=-mod=vendor GOPROXY=off
mkdir -p ../bin
go build -o ../bin/symgo .
