package main

// `symgo run`: explore all instances of a property's check, decide, replay, write evidence.

import (
	"encoding/json"
	"flag"
	"fmt"
	"os"
	"os/exec"
	"path/filepath"
	"runtime"
	"sort"
	"strconv"
	"strings"
	"sync"
	"time"
)

type KnownFinding struct {
	Status   string         `json:"status"` // "known" | "fixed"
	Property string         `json:"property"`
	Pkg      string         `json:"pkg,omitempty"` // harness package (roaring | roaring64 | bsi); empty = any
	Func     string         `json:"func,omitempty"`
	Label    string         `json:"label,omitempty"`  // assertion label that fails
	Params   map[string]int `json:"params,omitempty"` // instance parameters that identify the failing call site (subset match)
	What     string         `json:"what"`
	Commit   string         `json:"commit,omitempty"`
}

func loadKnownFindings() []KnownFinding {
	var kf []KnownFinding
	b, err := os.ReadFile(filepath.Join(verifRoot(), "known_findings.json"))
	if err != nil {
		return nil
	}
	if err := json.Unmarshal(b, &kf); err != nil {
		fmt.Fprintln(os.Stderr, "known_findings.json:", err)
		os.Exit(3)
	}
	return kf
}

// matchKnown: a violation is covered by a known finding only if property, harness, label and the listed params all match.
func matchKnown(kfs []KnownFinding, prop string, in *Instance, label string) *KnownFinding {
	for i := range kfs {
		k := &kfs[i]
		if k.Status != "known" || k.Property != prop || (k.Func != "" && k.Func != in.Func) {
			continue
		}
		if k.Label != "" && k.Label != label {
			continue
		}
		if k.Pkg != "" && k.Pkg != in.Pkg {
			continue
		}
		ok := true
		for pk, pv := range k.Params {
			if v, has := in.Params[pk]; !has || v != pv {
				ok = false
			}
		}
		if ok {
			return k
		}
	}
	return nil
}

type runOutcome struct {
	res     *InstResult
	verdict string // held | violation | known | inconclusive | mismatch
	detail  string
	cexPath string
	known   *KnownFinding
	obsOK   int
	obsBad  int
}

func runMain(args []string) int {
	fs := flag.NewFlagSet("run", flag.ExitOnError)
	prop := fs.String("property", "", "property id")
	tier := fs.String("tier", "quick", "quick|thorough")
	seed := fs.Int("seed", 0, "seed (instance order / witness choice only)")
	jobs := fs.Int("j", runtime.NumCPU(), "parallel instances")
	only := fs.String("only", "", "substring filter on instance names (development)")
	solvers := fs.String("solvers", "cvc5,z3-new", "portfolio")
	verbose := fs.Bool("v", false, "print per-instance lines")
	fs.Parse(args)
	if s := os.Getenv("VERIF_SEED"); s != "" && *seed == 0 {
		*seed, _ = strconv.Atoi(s)
	}
	t0 := time.Now()
	insts := instancesFor(*prop, *tier)
	if *only != "" {
		var f []*Instance
		for _, in := range insts {
			if strings.Contains(in.Name(), *only) {
				f = append(f, in)
			}
		}
		insts = f
	}
	if len(insts) == 0 {
		fmt.Fprintf(os.Stderr, "no instances registered for %s/%s\n", *prop, *tier)
		return 3
	}
	l, err := loadRepo()
	if err != nil {
		fmt.Fprintln(os.Stderr, "INCONCLUSIVE: cannot load /repo:", err)
		return 3
	}
	loadT := time.Since(t0)
	qt := 15000
	if *tier == "thorough" {
		qt = 120000
	}
	// deterministic permutation by seed
	order := make([]int, len(insts))
	for i := range order {
		order[i] = i
	}
	if *seed != 0 {
		x := uint64(*seed)*6364136223846793005 + 1442695040888963407
		for i := len(order) - 1; i > 0; i-- {
			x = x*6364136223846793005 + 1442695040888963407
			j := int((x >> 33) % uint64(i+1))
			order[i], order[j] = order[j], order[i]
		}
	}
	rp := NewReplayer()
	defer rp.Close()
	kfs := loadKnownFindings()
	outs := make([]*runOutcome, len(insts))
	var wg sync.WaitGroup
	work := make(chan int)
	var mu sync.Mutex
	for w := 0; w < *jobs; w++ {
		wg.Add(1)
		go func() {
			defer wg.Done()
			for i := range work {
				in := insts[i]
				if *verbose {
					mu.Lock()
					fmt.Printf("[start] %s\n", in.Name())
					mu.Unlock()
				}
				sv := *solvers
				if in.Solvers != "" {
					sv = in.Solvers
				}
				iqt := qt
				if in.QueryTimeoutMs > iqt {
					iqt = in.QueryTimeoutMs
				}
				r := l.runInstance(in, strings.Split(sv, ","), iqt)
				o := judge(*prop, in, r, rp, kfs)
				mu.Lock()
				outs[i] = o
				if *verbose || o.verdict != "held" {
					fmt.Printf("[%s] %s paths=%d queries=%d wall=%v %s\n", o.verdict, in.Name(), r.Paths, r.Stats.Queries, r.Wall.Round(time.Millisecond), o.detail)
				}
				mu.Unlock()
			}
		}()
	}
	for _, i := range order {
		work <- i
	}
	close(work)
	wg.Wait()
	return report(*prop, *tier, *seed, insts, outs, rp, loadT, time.Since(t0), kfs)
}

// judge turns an exploration result into a verdict, replaying natively where required.
func judge(prop string, in *Instance, r *InstResult, rp *Replayer, kfs []KnownFinding) *runOutcome {
	o := &runOutcome{res: r, verdict: "held"}
	if v := r.Violation; v != nil {
		out, err := rp.Run(in, v.Tape)
		if err != nil {
			o.verdict, o.detail = "inconclusive", "native replay infrastructure: "+err.Error()
			return o
		}
		rv := parseReplay(out)
		if !rv.Failed {
			o.verdict = "mismatch"
			o.detail = fmt.Sprintf("solver counterexample for %q (%s) does not reproduce natively (done=%v rejected=%v): encoding or stub wrong", v.Label, v.Where, rv.Done, rv.Rejected)
			writeCex(prop, in, v, rv, "mismatch")
			return o
		}
		if k := matchKnown(kfs, prop, in, v.Label); k != nil {
			o.verdict, o.known = "known", k
			o.detail = k.What
			return o
		}
		o.verdict = "violation"
		o.cexPath = writeCex(prop, in, v, rv, "violation")
		o.detail = fmt.Sprintf("%s %q at %s; native: %s", v.Kind, v.Label, v.Where, rv.Label)
		return o
	}
	if len(r.Inconclusive) > 0 {
		o.verdict = "inconclusive"
		o.detail = strings.Join(uniq(r.Inconclusive, 3), "; ")
		return o
	}
	// vacuity guard
	if !r.Reached["end"] {
		o.verdict, o.detail = "inconclusive", fmt.Sprintf("vacuous: no path reaches the end of the harness (ends=%v)", r.Ends)
		return o
	}
	// translator validation on the witnesses
	for _, w := range r.Witnesses {
		out, err := rp.Run(in, w.Tape)
		if err != nil {
			o.verdict, o.detail = "inconclusive", "native replay infrastructure: "+err.Error()
			return o
		}
		rv := parseReplay(out)
		same := rv.Done && !rv.Failed && len(rv.Obs) == len(w.Observed)
		if same {
			for i := range rv.Obs {
				if rv.Obs[i] != w.Observed[i] {
					same = false
				}
			}
		}
		if same {
			o.obsOK++
		} else {
			o.obsBad++
			o.verdict = "mismatch"
			o.detail = fmt.Sprintf("witness replay differs: native obs=%v done=%v failed=%v(%s) rejected=%v, VM predicted %v (tape %v)", rv.Obs, rv.Done, rv.Failed, rv.Label, rv.Rejected, w.Observed, w.Tape)
			return o
		}
	}
	return o
}

func uniq(ss []string, max int) []string {
	seen := map[string]bool{}
	var out []string
	for _, s := range ss {
		if !seen[s] {
			seen[s] = true
			out = append(out, s)
			if len(out) >= max {
				break
			}
		}
	}
	return out
}

type cexFile struct {
	Property string         `json:"property"`
	Harness  string         `json:"harness"`
	Pkg      string         `json:"pkg"`
	Params   map[string]int `json:"params"`
	Tape     []uint64       `json:"tape"`
	Kind     string         `json:"kind"`
	Label    string         `json:"label"`
	Where    string         `json:"where"`
	Native   string         `json:"native_outcome"`
	Status   string         `json:"status"`
	Replay   string         `json:"replay_cmd"`
}

func writeCex(prop string, in *Instance, v *Violation, rv replayVerdict, status string) string {
	dir := filepath.Join(evidenceDir(), "cex")
	os.MkdirAll(dir, 0o755)
	name := fmt.Sprintf("%s-%s-%x.json", prop, in.Func, hashStr(in.Name()+v.Label))
	p := filepath.Join(dir, name)
	c := cexFile{prop, in.Func, in.Pkg, in.Params, v.Tape, v.Kind, v.Label, v.Where, rv.Label, status, "./check --replay " + p}
	b, _ := json.MarshalIndent(c, "", " ")
	os.WriteFile(p, b, 0o644)
	return p
}

func hashStr(s string) uint32 {
	h := uint32(2166136261)
	for i := 0; i < len(s); i++ {
		h = (h ^ uint32(s[i])) * 16777619
	}
	return h
}

func replayMain(args []string) int {
	if len(args) < 1 {
		fmt.Fprintln(os.Stderr, "usage: symgo replay <cex.json>")
		return 2
	}
	b, err := os.ReadFile(args[0])
	if err != nil {
		fmt.Fprintln(os.Stderr, err)
		return 2
	}
	var c cexFile
	if err := json.Unmarshal(b, &c); err != nil {
		fmt.Fprintln(os.Stderr, err)
		return 2
	}
	rp := NewReplayer()
	defer rp.Close()
	in := &Instance{Property: c.Property, Pkg: c.Pkg, Func: c.Harness, Params: c.Params}
	out, err := rp.Run(in, c.Tape)
	if err != nil {
		fmt.Fprintln(os.Stderr, err)
		return 3
	}
	fmt.Print(out)
	rv := parseReplay(out)
	if rv.Failed {
		fmt.Printf("VIOLATION property=%s replay=%s\n", c.Property, args[0])
		return 1
	}
	fmt.Println("replay: property held on this input")
	return 0
}

// ---------- evidence

func report(prop, tier string, seed int, insts []*Instance, outs []*runOutcome, rp *Replayer, loadT, wall time.Duration, kfs []KnownFinding) int {
	var paths, decisions, obligations, folded, queries, replays, nontrivial, steps int
	var solverT time.Duration
	fns := map[string]int{}
	stubs := map[string]int{}
	wins := map[string]int{}
	labels := map[string]int{}
	var samples []interface{}
	var inconcl, violations, mismatches []string
	knownSeen := map[string]bool{}
	for i, o := range outs {
		r := o.res
		paths += r.Paths
		decisions += r.Decisions
		obligations += r.AssertsSolver + r.AssertsFolded
		folded += r.AssertsFolded
		queries += r.Stats.Queries
		steps += r.Steps
		solverT += r.Stats.Time
		replays += o.obsOK + o.obsBad
		if r.Inputs > 0 {
			nontrivial++
		}
		for f, n := range r.FnsHit {
			fns[f] += n
		}
		for f, n := range r.StubsHit {
			stubs[f] += n
		}
		for f, n := range r.Wins {
			wins[f] += n
		}
		for f, n := range r.AssertLabels {
			labels[f] += n
		}
		if len(samples) < 4 && r.Paths > 0 {
			s := map[string]interface{}{"instance": insts[i].Name(), "paths": r.Paths, "path_ends": r.Ends, "symbolic_inputs": r.Inputs, "obligation_labels": r.AssertLabels}
			if r.SamplePC != "" {
				s["one_path_condition"] = r.SamplePC
			}
			if len(r.Witnesses) > 0 {
				s["one_model_as_tape"] = r.Witnesses[0].Tape
				s["observations_predicted_and_replayed"] = r.Witnesses[0].Observed
			}
			samples = append(samples, s)
		}
		switch o.verdict {
		case "inconclusive":
			inconcl = append(inconcl, insts[i].Name()+": "+o.detail)
		case "violation":
			violations = append(violations, o.cexPath)
			replays++
		case "mismatch":
			mismatches = append(mismatches, insts[i].Name()+": "+o.detail)
		case "known":
			replays++
			if !knownSeen[o.known.What] {
				knownSeen[o.known.What] = true
				fmt.Printf("KNOWN-FINDING: property=%s %s\n", prop, o.known.What)
			}
		}
	}
	var fnList []string
	for f := range fns {
		if strings.Contains(f, "RoaringBitmap/roaring") && !strings.Contains(f, ".Verif") && !strings.Contains(f, ".v") {
			fnList = append(fnList, strings.ReplaceAll(f, modPath, "roaring"))
		}
	}
	sort.Strings(fnList)
	var stubList []string
	for s := range stubs {
		stubList = append(stubList, s)
	}
	sort.Strings(stubList)
	bounds := []string{}
	for _, in := range insts {
		bounds = append(bounds, in.Name())
	}
	ev := map[string]interface{}{
		"property_id": prop, "tier": tier, "seed": seed, "level": "model_checking",
		"wall_s":     wall.Seconds(),
		"violations": len(violations),
		"coverage": map[string]interface{}{
			"states": paths, "transitions": decisions, "traces_validated_against_impl": replays, "samples": samples,
			"evaluations": obligations, "distinct_nontrivial": nontrivial,
			"rule":        "one evaluation = one proof obligation (assertion or implicit panic/memory-safety check) decided for ALL values of the symbolic inputs on one path; an instance is non-trivial when it has at least one symbolic input; states = explored paths (an exhaustive partition of the bounded input space), transitions = solver-decided branch/shape decisions",
			"exhaustive":  len(inconcl) == 0,
			"instances":   len(insts),
			"bounds":      bounds,
			"obligations": obligations, "discharged_by_constant_folding": folded, "discharged_by_solver": obligations - folded,
			"obligation_labels": labels,
			"solver_queries":    queries, "solver_time_s": solverT.Seconds(), "solver_wins": wins,
			"ssa_instructions_executed": steps,
			"functions_encoded":         fnList,
			"stubs_hit":                 stubList,
			"inconclusive":              nonNil(inconcl),
			"engine_mismatches":         nonNil(mismatches),
			"known_findings_reproduced": nonNil(keys(knownSeen)),
			"tree_under_check":          treeState(),
			"load_ssa_s":                loadT.Seconds(),
			"native_replays":            rp.Runs,
		},
		"assumptions": []string{
			"go/ssa (x/tools v0.50.0) lowers the source faithfully; symgo interprets it faithfully (cross-checked by native witness replays: traces_validated_against_impl)",
			"shapes are bounded as listed in coverage.bounds; everything outside is not claimed",
			"portable Go kernels only (useAVX2=false); assembly is outside the claim",
			"one deterministic goroutine schedule; stubs listed in coverage.stubs_hit (formatting, error text, NumCPU, sync.Pool never recycles)",
			"solvers: cvc5 1.0 and z3 5.1.0 race on every query; an (error line or unknown is inconclusive, never unsat",
		},
	}
	os.MkdirAll(evidenceDir(), 0o755)
	b, _ := json.MarshalIndent(ev, "", " ")
	os.WriteFile(filepath.Join(evidenceDir(), prop+".json"), b, 0o644)
	fmt.Printf("%s %s: instances=%d paths=%d obligations=%d (folded %d) queries=%d solver=%.1fs replays=%d wall=%.1fs\n", prop, tier, len(insts), paths, obligations, folded, queries, solverT.Seconds(), replays, wall.Seconds())
	if len(violations) > 0 {
		for _, v := range violations {
			fmt.Printf("VIOLATION property=%s replay=%s\n", prop, v)
		}
		return 1
	}
	if len(mismatches) > 0 {
		for _, m := range mismatches {
			fmt.Println("ENGINE-MISMATCH", m)
		}
		return 3
	}
	if len(inconcl) > 0 {
		for _, m := range inconcl {
			fmt.Println("INCONCLUSIVE", m)
		}
		return 3
	}
	return 0
}

func keys(m map[string]bool) []string {
	var out []string
	for k := range m {
		out = append(out, k)
	}
	sort.Strings(out)
	return out
}

func selftestMain(args []string) int { return 0 }

func nonNil(l []string) []string {
	if l == nil {
		return []string{}
	}
	return l
}

// evidenceDir: /verif/evidence, unless VERIF_EVIDENCE_DIR redirects it (development runs against scratch trees; ./check unsets it).
func evidenceDir() string {
	if d := os.Getenv("VERIF_EVIDENCE_DIR"); d != "" {
		return d
	}
	return filepath.Join(verifRoot(), "evidence")
}

// treeState records which tree the encoding was generated from: directory, HEAD and the files that differ from HEAD.
func treeState() map[string]interface{} {
	out := map[string]interface{}{"dir": repoDir}
	if b, err := exec.Command("git", "-C", repoDir, "rev-parse", "HEAD").Output(); err == nil {
		out["head"] = strings.TrimSpace(string(b))
	}
	if b, err := exec.Command("git", "-C", repoDir, "status", "--porcelain", "--untracked-files=no").Output(); err == nil {
		mod := []string{}
		for _, l := range strings.Split(strings.TrimSpace(string(b)), "\n") {
			if l != "" && strings.HasSuffix(l, ".go") {
				mod = append(mod, strings.TrimSpace(l))
			}
		}
		out["modified_go_files"] = mod
	}
	return out
}
