package main

// Goroutines, channels, WaitGroup, Mutex, atomics under ONE deterministic schedule:
// the running goroutine runs until it blocks or ends, then the next live goroutine (cyclic order) gets the baton.
// This exists so that the Par*/BSI fan-out code can be executed for input-quantified properties;
// it does not explore schedules.

import (
	"fmt"
	"go/types"
	"os"

	"golang.org/x/tools/go/ssa"
)

type ChanObj struct {
	buf      []Value
	cap      int
	closed   bool
	slotFull bool // unbuffered rendezvous slot
	slot     Value
	taken    int // number of values taken from the slot
}

type gor struct {
	id   int
	wake chan struct{}
	done bool
}

type scheduler struct {
	gors     []*gor
	cur      *gor
	idle     int         // consecutive blocks without progress
	abort    interface{} // panic value that ends the path: propagated to the main goroutine
	mainWake chan struct{}
}

var schedTrace = os.Getenv("SYMGO_SCHED") != ""

type wgKey struct {
	o   *Obj
	off int
}

func (vm *VM) ensureSched() *scheduler {
	if vm.sched == nil {
		g := &gor{id: 0, wake: make(chan struct{}, 1)}
		vm.sched = &scheduler{gors: []*gor{g}, cur: g}
	}
	return vm.sched
}

func (vm *VM) progress() {
	if vm.sched != nil {
		vm.sched.idle = 0
	}
}

// block hands the baton to the next live goroutine and waits to get it back.
func (vm *VM) block(why string) {
	s := vm.ensureSched()
	s.idle++
	live := 0
	for _, g := range s.gors {
		if !g.done {
			live++
		}
	}
	if s.idle > live+1 {
		panic(pathEnd{"deadlock", "all goroutines blocked (" + why + ") at " + vm.where()})
	}
	me := s.cur
	nxt := vm.nextGor(me)
	if schedTrace {
		fmt.Fprintf(os.Stderr, "SCHED g%d blocks (%s) idle=%d live=%d -> g%d\n", me.id, why, s.idle, live, nxt.id)
	}
	if nxt == me {
		panic(pathEnd{"deadlock", "goroutine blocked forever (" + why + ") at " + vm.where()})
	}
	s.cur = nxt
	saveFn, saveDepth, saveStack, saveRec := vm.curFn, vm.callDepth, vm.stack, vm.recoverStk
	nxt.wake <- struct{}{}
	<-me.wake
	vm.curFn, vm.callDepth, vm.stack, vm.recoverStk = saveFn, saveDepth, saveStack, saveRec
	if schedTrace {
		fmt.Fprintf(os.Stderr, "SCHED g%d resumes (abort=%v)\n", me.id, s.abort)
	}
	if s.abort != nil && me.id != 0 {
		panic(gorExit{})
	}
	if s.abort != nil && me.id == 0 {
		a := s.abort
		panic(a)
	}
}

type gorExit struct{}

func (vm *VM) nextGor(me *gor) *gor {
	s := vm.sched
	n := len(s.gors)
	start := 0
	for i, g := range s.gors {
		if g == me {
			start = i
		}
	}
	for k := 1; k <= n; k++ {
		g := s.gors[(start+k)%n]
		if !g.done {
			return g
		}
	}
	return me
}

func (vm *VM) goStmt(fr *frame, x *ssa.Go) {
	s := vm.ensureSched()
	f, args := vm.evalCall(fr, &x.Call)
	g := &gor{id: len(s.gors), wake: make(chan struct{}, 1)}
	s.gors = append(s.gors, g)
	vm.progress()
	cc := x.Call
	go func() {
		<-g.wake
		defer func() {
			r := recover()
			g.done = true
			if schedTrace {
				fmt.Fprintf(os.Stderr, "SCHED g%d exits r=%v abort=%v\n", g.id, r, s.abort)
			}
			if r != nil {
				if _, ok := r.(gorExit); !ok && s.abort == nil {
					if gp, ok := r.(goPanic); ok {
						// an unrecovered panic in a goroutine crashes the program
						s.abort = pathEnd{"gopanic", gp.msg}
						s.abortPanic(gp)
					} else {
						s.abort = r
					}
				}
			}
			vm.progress()
			// hand the baton on
			if s.abort != nil {
				s.cur = s.gors[0]
				s.gors[0].wake <- struct{}{}
				return
			}
			nxt := vm.nextGor(g)
			s.cur = nxt
			nxt.wake <- struct{}{}
		}()
		if s.abort != nil {
			panic(gorExit{})
		}
		vm.callDepth = 0
		vm.stack = nil
		vm.recoverStk = nil
		if schedTrace {
			fmt.Fprintf(os.Stderr, "SCHED g%d starts\n", g.id)
		}
		vm.invoke(nil, &cc, f, args)
	}()
}

var lastGoPanic *goPanic

func (s *scheduler) abortPanic(gp goPanic) { s.abort = gp }

// drainGoroutines is called when the main goroutine's path ends for any reason: all host goroutines must exit.
func (vm *VM) drainGoroutines() {
	s := vm.sched
	if s == nil {
		return
	}
	if s.abort == nil {
		s.abort = pathEnd{"end", ""}
	}
	for _, g := range s.gors[1:] {
		for !g.done {
			s.cur = g
			g.wake <- struct{}{}
			<-s.gors[0].wake
		}
	}
}

func (vm *VM) makeChan(n int) *ChanObj {
	vm.ensureSched()
	return &ChanObj{cap: n}
}

func (vm *VM) chanSend(c *ChanObj, v Value) {
	if c == nil {
		vm.block("send on nil channel")
		panic(pathEnd{"deadlock", "send on nil channel"})
	}
	if c.cap > 0 {
		for len(c.buf) >= c.cap && !c.closed {
			vm.block("chan send")
		}
		if c.closed {
			panic(goPanic{msg: "send on closed channel"})
		}
		c.buf = append(c.buf, v)
		vm.progress()
		return
	}
	for c.slotFull && !c.closed {
		vm.block("chan send")
	}
	if c.closed {
		panic(goPanic{msg: "send on closed channel"})
	}
	c.slot, c.slotFull = v, true
	want := c.taken + 1
	vm.progress()
	for c.taken < want {
		if c.closed {
			panic(goPanic{msg: "send on closed channel"})
		}
		vm.block("chan send (rendezvous)")
	}
}

func (vm *VM) chanTryRecv(c *ChanObj) (Value, bool, bool) { // value, ok(received), ready
	if len(c.buf) > 0 {
		v := c.buf[0]
		c.buf = c.buf[1:]
		vm.progress()
		return v, true, true
	}
	if c.slotFull {
		v := c.slot
		c.slot, c.slotFull = nil, false
		c.taken++
		vm.progress()
		return v, true, true
	}
	if c.closed {
		return nil, false, true
	}
	return nil, false, false
}

func (vm *VM) chanRecv(c *ChanObj, t types.Type, commaOk bool) (Value, bool) {
	if c == nil {
		vm.block("receive on nil channel")
		panic(pathEnd{"deadlock", "receive on nil channel"})
	}
	for {
		v, ok, ready := vm.chanTryRecv(c)
		if ready {
			if !ok {
				if tu, isTuple := t.(*types.Tuple); isTuple {
					return vm.zero(tu.At(0).Type()), false
				}
				return vm.zero(t), false
			}
			return v, true
		}
		vm.block("chan receive")
	}
}

func (vm *VM) chanClose(c *ChanObj) {
	if c == nil || c.closed {
		panic(goPanic{msg: "close of nil or closed channel"})
	}
	c.closed = true
	vm.progress()
}

func (vm *VM) selectStmt(fr *frame, x *ssa.Select) Value {
	ts := vm.ts
	n := len(x.States)
	mk := func(idx int, recvOk bool, recvVal Value, recvIdx int) Value {
		tu := Tuple{ts.BV(64, uint64(int64(idx))), ts.Bool(recvOk)}
		for i, st := range x.States {
			if st.Dir == types.RecvOnly {
				if i == recvIdx && recvVal != nil {
					tu = append(tu, recvVal)
				} else {
					tu = append(tu, vm.zero(st.Chan.Type().Underlying().(*types.Chan).Elem()))
				}
			}
		}
		return tu
	}
	for {
		for i, st := range x.States {
			c, _ := vm.get(fr, st.Chan).(*ChanObj)
			if c == nil {
				continue
			}
			if st.Dir == types.RecvOnly {
				v, ok, ready := vm.chanTryRecv(c)
				if ready {
					return mk(i, ok, v, i)
				}
			} else {
				if c.closed {
					panic(goPanic{msg: "send on closed channel"})
				}
				if c.cap > 0 && len(c.buf) < c.cap {
					c.buf = append(c.buf, vm.get(fr, st.Send))
					vm.progress()
					return mk(i, false, nil, -1)
				}
				if c.cap == 0 && !c.slotFull {
					// rendezvous send inside select: complete it like a plain send
					vm.chanSend(c, vm.get(fr, st.Send))
					return mk(i, false, nil, -1)
				}
			}
		}
		if !x.Blocking {
			return mk(-1, false, nil, -1)
		}
		_ = n
		vm.block("select")
	}
}

func init() {
	counter := func(vm *VM, p Ptr) *int {
		if vm.wgs == nil {
			vm.wgs = map[wgKey]*int{}
		}
		k := wgKey{p.obj, p.off}
		if c, ok := vm.wgs[k]; ok {
			return c
		}
		c := new(int)
		vm.wgs[k] = c
		return c
	}
	stub("(*sync.WaitGroup).Add", func(vm *VM, fr *frame, args []Value, cc *ssa.CallCommon) Value {
		c := counter(vm, args[0].(Ptr))
		*c += vm.concreteInt(args[1])
		if *c < 0 {
			panic(goPanic{msg: "sync: negative WaitGroup counter"})
		}
		vm.progress()
		return nil
	})
	stub("(*sync.WaitGroup).Done", func(vm *VM, fr *frame, args []Value, cc *ssa.CallCommon) Value {
		c := counter(vm, args[0].(Ptr))
		*c--
		if *c < 0 {
			panic(goPanic{msg: "sync: negative WaitGroup counter"})
		}
		vm.progress()
		return nil
	})
	stub("(*sync.WaitGroup).Wait", func(vm *VM, fr *frame, args []Value, cc *ssa.CallCommon) Value {
		c := counter(vm, args[0].(Ptr))
		for *c > 0 {
			vm.block("WaitGroup.Wait")
		}
		return nil
	})
	stub("(*sync.Mutex).Lock", func(vm *VM, fr *frame, args []Value, cc *ssa.CallCommon) Value {
		c := counter(vm, args[0].(Ptr))
		for *c > 0 {
			vm.block("Mutex.Lock")
		}
		*c = 1
		return nil
	})
	stub("(*sync.Mutex).Unlock", func(vm *VM, fr *frame, args []Value, cc *ssa.CallCommon) Value {
		c := counter(vm, args[0].(Ptr))
		*c = 0
		vm.progress()
		return nil
	})
	stub("sync/atomic.AddInt64", func(vm *VM, fr *frame, args []Value, cc *ssa.CallCommon) Value {
		p := args[0].(Ptr)
		v := vm.ts.Add(vm.loadScalar(p.obj, p.off, 8), args[1].(*Term))
		vm.storeCell(p.obj, p.off, 8, v)
		return v
	})
	stub("sync/atomic.LoadInt64", func(vm *VM, fr *frame, args []Value, cc *ssa.CallCommon) Value {
		p := args[0].(Ptr)
		return vm.loadScalar(p.obj, p.off, 8)
	})
}
