package main

// Builtins, vsym nondet API, stdlib intrinsics and stubs. Every entry here is part of each claim
// (listed in evidence under stubs_hit).

import (
	"fmt"
	"go/types"
	"os"
	"strings"

	"golang.org/x/tools/go/ssa"
)

const vsymPath = "github.com/RoaringBitmap/roaring/v2/internal/vsym"

// packages whose initialisers are executed concretely in the VM (on first access to one of their globals)
func initAllowed(path string) bool {
	switch path {
	case "github.com/RoaringBitmap/roaring/v2", "github.com/RoaringBitmap/roaring/v2/roaring64",
		"github.com/RoaringBitmap/roaring/v2/BitSliceIndexing", "github.com/RoaringBitmap/roaring/v2/internal",
		"io", "encoding/base64", "math/big", "github.com/bits-and-blooms/bitset", "encoding/binary", "bytes":
		return true
	}
	return false
}

// globals of non-initialised packages that may be read as zero
func globalZeroOK(g *ssa.Global) bool {
	switch g.Pkg.Pkg.Path() {
	case "errors", "sync", "sync/atomic", "internal/race", "runtime", "unicode/utf8", "math/bits", "internal/cpu", "internal/bytealg", "strconv", "sort", "slices", "container/heap":
		return true
	}
	return false
}

var class2size = []int{0, 8, 16, 24, 32, 48, 64, 80, 96, 112, 128, 144, 160, 176, 192, 208, 224, 240, 256, 288, 320, 352, 384, 416, 448, 480, 512, 576, 640, 704, 768, 896, 1024, 1152, 1280, 1408, 1536, 1792, 2048, 2304, 2688, 3072, 3200, 3456, 4096, 4864, 5376, 6144, 6528, 6784, 6912, 8192, 9472, 9728, 10240, 10880, 12288, 13568, 14336, 16384, 18432, 19072, 20480, 21760, 24576, 27264, 28672, 32768}

func roundupsize(size int, noscan bool) int {
	req := size
	if req <= 32768-8 {
		if !noscan && req > 512 {
			req += 8
		}
		for _, c := range class2size {
			if c >= req {
				return c - (req - size)
			}
		}
	}
	req += 8192 - 1
	return req &^ (8192 - 1)
}

func hasPointers(t types.Type) bool {
	switch u := t.Underlying().(type) {
	case *types.Basic:
		return u.Kind() == types.String || u.Kind() == types.UnsafePointer
	case *types.Struct:
		for i := 0; i < u.NumFields(); i++ {
			if hasPointers(u.Field(i).Type()) {
				return true
			}
		}
		return false
	case *types.Array:
		return hasPointers(u.Elem())
	}
	return true
}

func growCap(oldCap, newLen, es int, noscan bool) int {
	newcap := oldCap
	double := newcap + newcap
	switch {
	case newLen > double:
		newcap = newLen
	case oldCap < 256:
		newcap = double
	default:
		for {
			newcap += (newcap + 3*256) >> 2
			if newcap >= newLen {
				break
			}
		}
	}
	if es == 0 {
		return newcap
	}
	return roundupsize(newcap*es, noscan) / es
}

func (vm *VM) builtin(fr *frame, name string, args []Value, cc *ssa.CallCommon) Value {
	ts := vm.ts
	switch name {
	case "len":
		switch x := args[0].(type) {
		case Slice:
			if x.symLen != nil {
				return x.symLen
			}
			return ts.BV(64, uint64(x.len))
		case Str:
			return ts.BV(64, uint64(x.n))
		case *MapObj:
			if x == nil {
				return ts.BV(64, 0)
			}
			return ts.BV(64, uint64(len(x.keys)))
		case *ChanObj:
			return ts.BV(64, uint64(len(x.buf)))
		case Ptr: // *array
			return ts.BV(64, uint64(cc.Args[0].Type().Underlying().(*types.Pointer).Elem().Underlying().(*types.Array).Len()))
		case Tuple:
			return ts.BV(64, uint64(len(x)))
		}
	case "cap":
		switch x := args[0].(type) {
		case Slice:
			if x.symLen != nil {
				return x.symLen
			}
			return ts.BV(64, uint64(x.cap))
		case *ChanObj:
			return ts.BV(64, uint64(x.cap))
		case Ptr:
			return ts.BV(64, uint64(cc.Args[0].Type().Underlying().(*types.Pointer).Elem().Underlying().(*types.Array).Len()))
		}
	case "copy":
		d := args[0].(Slice)
		es := sizeof(cc.Args[0].Type().Underlying().(*types.Slice).Elem())
		if s2, ok := args[1].(Slice); ok && (d.lazy || s2.lazy) {
			return vm.copyLazy(d, s2, es)
		}
		if d.lazy {
			unsupported("copy from a string into a lazily sized buffer")
		}
		var sobj *Obj
		var soff, sn int
		switch s := args[1].(type) {
		case Slice:
			sobj, soff, sn = s.obj, s.off, s.len
		case Str:
			sobj, soff, sn = s.obj, s.off, s.n
		}
		n := d.len
		if sn < n {
			n = sn
		}
		if n > 0 {
			vm.copyBytes(d.obj, d.off, sobj, soff, n*es)
		}
		return ts.BV(64, uint64(n))
	case "append":
		d := args[0].(Slice)
		et := cc.Args[0].Type().Underlying().(*types.Slice).Elem()
		es := sizeof(et)
		d = vm.materialise(d, es)
		if s2, ok := args[1].(Slice); ok {
			args[1] = vm.materialise(s2, es)
		}
		var sobj *Obj
		var soff, sn int
		switch s := args[1].(type) {
		case Slice:
			sobj, soff, sn = s.obj, s.off, s.len
		case Str:
			sobj, soff, sn = s.obj, s.off, s.n
		}
		if sn == 0 {
			return d
		}
		if d.len+sn <= d.cap {
			vm.copyBytes(d.obj, d.off+d.len*es, sobj, soff, sn*es)
			return Slice{obj: d.obj, off: d.off, len: d.len + sn, cap: d.cap}
		}
		nc := growCap(d.cap, d.len+sn, es, !hasPointers(et))
		o := vm.newObj(nc*es, "append "+et.String())
		if d.len > 0 {
			vm.copyBytes(o, 0, d.obj, d.off, d.len*es)
		}
		vm.copyBytes(o, d.len*es, sobj, soff, sn*es)
		return Slice{obj: o, off: 0, len: d.len + sn, cap: nc}
	case "delete":
		m := args[0].(*MapObj)
		if m != nil {
			if i := vm.mapFind(m, args[1]); i >= 0 {
				m.keys = append(append([]Value{}, m.keys[:i]...), m.keys[i+1:]...)
				m.vals = append(append([]Value{}, m.vals[:i]...), m.vals[i+1:]...)
			}
		}
		return nil
	case "min", "max":
		t := cc.Args[0].Type()
		acc := args[0].(*Term)
		for _, a := range args[1:] {
			b := a.(*Term)
			var lt *Term
			if isSignedT(t) {
				lt = ts.Slt(b, acc)
			} else {
				lt = ts.Ult(b, acc)
			}
			if name == "max" {
				lt = ts.Not(ts.Or(lt, ts.Eq(acc, b)))
			}
			acc = ts.Ite(lt, b, acc)
		}
		return acc
	case "clear":
		switch x := args[0].(type) {
		case Slice:
			es := sizeof(cc.Args[0].Type().Underlying().(*types.Slice).Elem())
			x = vm.materialise(x, es)
			if x.len > 0 {
				if x.obj.ro {
					panic(pathEnd{"rowrite", "clear() of write-protected object " + x.obj.label})
				}
				vm.clearRange(x.obj, x.off, x.len*es)
			}
		case *MapObj:
			x.keys, x.vals = nil, nil
		}
		return nil
	case "print", "println":
		return nil
	case "recover":
		if n := len(vm.recoverStk); n > 0 && vm.recoverStk[n-1].panicking != nil {
			gp := vm.recoverStk[n-1].panicking
			vm.recoverStk[n-1].panicking = nil
			if i, ok := gp.val.(Iface); ok && i.t != nil {
				return i
			}
			return vm.opaqueError("recovered runtime panic: " + gp.msg)
		}
		return Iface{}
	case "close":
		vm.chanClose(args[0].(*ChanObj))
		return nil
	case "ssa:wrapnilchk":
		if p, ok := args[0].(Ptr); ok && p.obj == nil {
			vm.goPanicf("value method called via nil pointer")
		}
		return args[0]
	case "Slice": // unsafe.Slice(ptr, n)
		p := args[0].(Ptr)
		n := vm.concreteInt(vm.idx64(args[1], cc.Args[1].Type()))
		if p.obj == nil {
			if n == 0 {
				return Slice{}
			}
			vm.goPanicf("unsafe.Slice: ptr is nil and len is not zero")
		}
		if n < 0 {
			vm.goPanicf("unsafe.Slice: len out of range")
		}
		es := sizeof(cc.Args[0].Type().Underlying().(*types.Pointer).Elem())
		if p.off+n*es > p.obj.size && p.obj.lazyLen != nil {
			if vm.decide(vm.ts.Ule(vm.ts.BV(64, uint64(p.off+n*es)), p.obj.lazyLen)) {
				vm.ensure(p.obj, p.off+n*es)
			}
		}
		if p.off+n*es > p.obj.size {
			panic(pathEnd{"oob", fmt.Sprintf("unsafe.Slice of %d bytes at offset %d beyond object %s of %d bytes", n*es, p.off, p.obj.label, p.obj.size)})
		}
		return Slice{obj: p.obj, off: p.off, len: n, cap: n}
	case "SliceData":
		s := args[0].(Slice)
		return Ptr{s.obj, s.off}
	case "String":
		p := args[0].(Ptr)
		n := vm.concreteInt(vm.idx64(args[1], cc.Args[1].Type()))
		if n == 0 {
			return Str{}
		}
		return Str{p.obj, p.off, n}
	case "StringData":
		s := args[0].(Str)
		return Ptr{s.obj, s.off}
	case "Add":
		p := args[0].(Ptr)
		return Ptr{p.obj, p.off + vm.concreteInt(vm.idx64(args[1], cc.Args[1].Type()))}
	}
	unsupported("builtin %s on %T", name, args[0])
	return nil
}

// ---------- intrinsics keyed by fully qualified function name

var intrinsics = map[string]intrinsicFn{}

func lookupIntrinsic(fn *ssa.Function) intrinsicFn {
	name := fn.String()
	if fn.Origin() != nil {
		name = fn.Origin().String()
	}
	if f, ok := intrinsics[name]; ok {
		return f
	}
	if strings.HasPrefix(name, vsymPath+".") && fn.Name() != "init" {
		panic("vsym function without VM model: " + name)
	}
	return nil
}

func stub(name string, f intrinsicFn) {
	intrinsics[name] = func(vm *VM, fr *frame, args []Value, cc *ssa.CallCommon) Value {
		vm.stubsHit[name]++
		return f(vm, fr, args, cc)
	}
}

func (vm *VM) bitsLen(x *Term) *Term {
	// Len(x) = w - LeadingZeros(x), as an ite chain from the top bit (small terms, exact)
	ts := vm.ts
	w := x.w
	acc := ts.BV(64, 0)
	for i := uint8(0); i < w; i++ {
		acc = ts.Ite(ts.Eq(ts.Extract(i, i, x), ts.BV(1, 1)), ts.BV(64, uint64(i)+1), acc)
	}
	return acc
}

func (vm *VM) bitsTZ(x *Term) *Term {
	ts := vm.ts
	w := x.w
	acc := ts.BV(64, uint64(w))
	for i := int(w) - 1; i >= 0; i-- {
		acc = ts.Ite(ts.Eq(ts.Extract(uint8(i), uint8(i), x), ts.BV(1, 1)), ts.BV(64, uint64(i)), acc)
	}
	return acc
}

func init() {
	V := vsymPath + "."
	in := func(w uint8, name string) intrinsicFn {
		return func(vm *VM, fr *frame, args []Value, cc *ssa.CallCommon) Value { return vm.newInput(w, name) }
	}
	intrinsics[V+"U8"] = in(8, "u8")
	intrinsics[V+"U16"] = in(16, "u16")
	intrinsics[V+"U32"] = in(32, "u32")
	intrinsics[V+"U64"] = in(64, "u64")
	intrinsics[V+"I64"] = in(64, "i64")
	intrinsics[V+"Int"] = in(64, "int")
	intrinsics[V+"Bool"] = in(0, "bool")
	intrinsics[V+"Assume"] = func(vm *VM, fr *frame, args []Value, cc *ssa.CallCommon) Value {
		vm.assume(args[0].(*Term))
		return nil
	}
	intrinsics[V+"Assert"] = func(vm *VM, fr *frame, args []Value, cc *ssa.CallCommon) Value {
		label, _ := vm.goString(args[1].(Str))
		vm.obligation(args[0].(*Term), "assert", label)
		return nil
	}
	intrinsics[V+"Reach"] = func(vm *VM, fr *frame, args []Value, cc *ssa.CallCommon) Value {
		label, _ := vm.goString(args[0].(Str))
		vm.reached[label] = true
		return nil
	}
	intrinsics[V+"Param"] = func(vm *VM, fr *frame, args []Value, cc *ssa.CallCommon) Value {
		name, _ := vm.goString(args[0].(Str))
		v := vm.cfg.Params[name] // parameters not given are 0
		return vm.ts.BV(64, uint64(int64(v)))
	}
	// Choice(n): a concrete value in [0,n) chosen by forking
	intrinsics[V+"Choice"] = func(vm *VM, fr *frame, args []Value, cc *ssa.CallCommon) Value {
		n := args[0].(*Term)
		v := vm.newInput(64, "choice")
		vm.assume(vm.ts.Ult(v, n))
		return vm.ts.BV(64, uint64(vm.concreteInt(v)))
	}
	intrinsics[V+"And"] = func(vm *VM, fr *frame, args []Value, cc *ssa.CallCommon) Value {
		return vm.ts.And(args[0].(*Term), args[1].(*Term))
	}
	intrinsics[V+"Or"] = func(vm *VM, fr *frame, args []Value, cc *ssa.CallCommon) Value {
		return vm.ts.Or(args[0].(*Term), args[1].(*Term))
	}
	intrinsics[V+"Implies"] = func(vm *VM, fr *frame, args []Value, cc *ssa.CallCommon) Value {
		return vm.ts.Or(vm.ts.Not(args[0].(*Term)), args[1].(*Term))
	}
	ite := func(vm *VM, fr *frame, args []Value, cc *ssa.CallCommon) Value {
		return vm.ts.Ite(args[0].(*Term), args[1].(*Term), args[2].(*Term))
	}
	for _, n := range []string{"IteU16", "IteU32", "IteU64", "IteInt", "IteI64", "IteBool", "IteU8"} {
		intrinsics[V+n] = ite
	}
	intrinsics[V+"B2I"] = func(vm *VM, fr *frame, args []Value, cc *ssa.CallCommon) Value {
		return vm.ts.Ite(args[0].(*Term), vm.ts.BV(64, 1), vm.ts.BV(64, 0))
	}
	intrinsics[V+"Observe"] = func(vm *VM, fr *frame, args []Value, cc *ssa.CallCommon) Value {
		t := args[0].(*Term)
		vm.observed = append(vm.observed, t)
		return nil
	}
	intrinsics[V+"ObserveBool"] = intrinsics[V+"Observe"]
	intrinsics[V+"Freeze"] = func(vm *VM, fr *frame, args []Value, cc *ssa.CallCommon) Value {
		if s := args[0].(Slice); s.obj != nil {
			s.obj.ro = true
			s.obj.label = "caller-buffer"
		}
		return nil
	}
	intrinsics[V+"FreezeWords"] = func(vm *VM, fr *frame, args []Value, cc *ssa.CallCommon) Value {
		if s := args[0].(Slice); s.obj != nil {
			s.obj.ro = true
			s.obj.label = "caller-words"
		}
		return nil
	}
	intrinsics[V+"Unfreeze"] = func(vm *VM, fr *frame, args []Value, cc *ssa.CallCommon) Value {
		if s := args[0].(Slice); s.obj != nil {
			s.obj.ro = false
		}
		return nil
	}
	// SameBacking(a, b []byte): do the two slices share an allocation? (structural aliasing test)
	sameBacking := func(vm *VM, fr *frame, args []Value, cc *ssa.CallCommon) Value {
		a, b := args[0].(Slice), args[1].(Slice)
		return vm.ts.Bool(a.obj != nil && a.obj == b.obj)
	}
	intrinsics[V+"SameBacking16"] = sameBacking
	intrinsics[V+"SameBacking64"] = sameBacking
	intrinsics[V+"SameBacking8"] = sameBacking
	// Catch(f) runs f and reports whether it panicked (Go-level panic)
	intrinsics[V+"Catch"] = func(vm *VM, fr *frame, args []Value, cc *ssa.CallCommon) (ret Value) {
		depth := vm.callDepth
		saveFn := vm.curFn
		sp := len(vm.stack)
		ret = vm.ts.tFalse
		func() {
			defer func() {
				if r := recover(); r != nil {
					if _, ok := r.(goPanic); !ok {
						panic(r)
					}
					vm.callDepth = depth
					vm.curFn = saveFn
					vm.stack = vm.stack[:sp]
					ret = vm.ts.tTrue
				}
			}()
			vm.callValue(fr, args[0], nil, nil)
		}()
		return ret
	}

	// math/bits
	for _, w := range []string{"8", "16", "32", "64", ""} {
		intrinsics["math/bits.TrailingZeros"+w] = func(vm *VM, fr *frame, args []Value, cc *ssa.CallCommon) Value {
			return vm.bitsTZ(args[0].(*Term))
		}
		intrinsics["math/bits.Len"+w] = func(vm *VM, fr *frame, args []Value, cc *ssa.CallCommon) Value {
			return vm.bitsLen(args[0].(*Term))
		}
		intrinsics["math/bits.LeadingZeros"+w] = func(vm *VM, fr *frame, args []Value, cc *ssa.CallCommon) Value {
			x := args[0].(*Term)
			return vm.ts.Sub(vm.ts.BV(64, uint64(x.w)), vm.bitsLen(x))
		}
	}

	// environment
	stub("runtime.NumCPU", func(vm *VM, fr *frame, args []Value, cc *ssa.CallCommon) Value {
		return vm.ts.BV(64, uint64(vm.cfg.NumCPU))
	})
	stub("runtime.GOMAXPROCS", func(vm *VM, fr *frame, args []Value, cc *ssa.CallCommon) Value {
		return vm.ts.BV(64, uint64(vm.cfg.NumCPU))
	})
	stub("runtime.Gosched", func(vm *VM, fr *frame, args []Value, cc *ssa.CallCommon) Value { return nil })
	stub("runtime.KeepAlive", func(vm *VM, fr *frame, args []Value, cc *ssa.CallCommon) Value { return nil })
	stub("github.com/RoaringBitmap/roaring/v2._hasAVX2", func(vm *VM, fr *frame, args []Value, cc *ssa.CallCommon) Value {
		return vm.ts.tFalse
	})
	// formatting is not the subject
	opaqueErr := func(vm *VM, fr *frame, args []Value, cc *ssa.CallCommon) Value { return vm.opaqueError("fmt") }
	stub("fmt.Errorf", opaqueErr)
	opaqueStr := func(vm *VM, fr *frame, args []Value, cc *ssa.CallCommon) Value { return vm.strConst("<formatted>") }
	stub("fmt.Sprintf", opaqueStr)
	stub("fmt.Sprint", opaqueStr)
	stub("fmt.Sprintln", opaqueStr)
	nop := func(vm *VM, fr *frame, args []Value, cc *ssa.CallCommon) Value { return nil }
	stub("fmt.Printf", func(vm *VM, fr *frame, args []Value, cc *ssa.CallCommon) Value {
		return Tuple{vm.ts.BV(64, 0), Iface{}}
	})
	stub("fmt.Println", func(vm *VM, fr *frame, args []Value, cc *ssa.CallCommon) Value {
		return Tuple{vm.ts.BV(64, 0), Iface{}}
	})
	stub("log.Printf", nop)
	stub("log.Println", nop)
	stub("log.Fatalf", func(vm *VM, fr *frame, args []Value, cc *ssa.CallCommon) Value {
		panic(goPanic{msg: "log.Fatalf"})
	})
	// sync.Pool: Get calls New (a pool never returns a recycled object); Put drops
	stub("(*sync.Pool).Get", func(vm *VM, fr *frame, args []Value, cc *ssa.CallCommon) Value {
		p := args[0].(Ptr)
		pt := vm.prog.ImportedPackage("sync").Type("Pool").Type().Underlying().(*types.Struct)
		for i := 0; i < pt.NumFields(); i++ {
			if pt.Field(i).Name() == "New" {
				f := vm.load(Ptr{p.obj, p.off + vm.fieldOffsets(pt)[i]}, pt.Field(i).Type())
				if c, ok := f.(*Closure); ok && c == nil {
					return Iface{}
				}
				return vm.callValue(fr, f, nil, nil)
			}
		}
		unsupported("sync.Pool layout")
		return nil
	})
	stub("(*sync.Pool).Put", nop)
}

func init() {
	nop := func(vm *VM, fr *frame, args []Value, cc *ssa.CallCommon) Value { return nil }
	intrinsics[vsymPath+".Register"] = nop
	intrinsics[vsymPath+".CheckFrozen"] = nop
	intrinsics[vsymPath+".ReplayMain"] = nop
}

func init() {
	intrinsics[vsymPath+".PopCount64"] = func(vm *VM, fr *frame, args []Value, cc *ssa.CallCommon) Value {
		w := args[0].(*Term)
		if w.op == OpConst {
			n := 0
			for c := w.c; c != 0; c &= c - 1 {
				n++
			}
			return vm.ts.BV(64, uint64(n))
		}
		return vm.ts.PopCount(w)
	}
	intrinsics[vsymPath+".Concrete"] = func(vm *VM, fr *frame, args []Value, cc *ssa.CallCommon) Value {
		return vm.ts.Bool(args[0].(*Term).op == OpConst)
	}
}

func init() {
	// math/bits.OnesCount*: same canonical bit-sum term as the specification-side vsym.PopCount64, so that library and
	// oracle popcounts of the same word are the same term (the real SWAR code is proved equivalent in `symgo selftest`).
	for _, w := range []string{"8", "16", "32", "64", ""} {
		if os.Getenv("SYMGO_POPSUM") == "" {
			continue // default: execute the real SWAR code of math/bits (3-4x faster in the solvers than a bit-sum term)
		}
		intrinsics["math/bits.OnesCount"+w] = func(vm *VM, fr *frame, args []Value, cc *ssa.CallCommon) Value {
			x := args[0].(*Term)
			if x.op == OpConst {
				n := 0
				for c := x.c; c != 0; c &= c - 1 {
					n++
				}
				return vm.ts.BV(64, uint64(n))
			}
			return vm.ts.ZExt(vm.ts.PopCount(x), 64)
		}
	}
}

func init() {
	intrinsics[vsymPath+".LenOnly"] = func(vm *VM, fr *frame, args []Value, cc *ssa.CallCommon) Value {
		n := args[0].(*Term)
		if n.op == OpConst {
			return Slice{obj: vm.newObj(0, "len-only"), len: int(n.c), cap: int(n.c), symLen: n}
		}
		return Slice{obj: vm.newObj(0, "len-only"), symLen: n}
	}
}

// copyLazy: copy where one side is a lazily sized buffer: the count is min(len(dst), len(src)).
func (vm *VM) copyLazy(d, s Slice, es int) Value {
	ts := vm.ts
	if d.lazy && s.lazy {
		n := vm.concreteInt(ts.Ite(ts.Ult(d.symLen, s.symLen), d.symLen, s.symLen))
		vm.ensure(d.obj, d.off+n*es)
		vm.ensure(s.obj, s.off+n*es)
		if n > 0 {
			vm.copyBytes(d.obj, d.off, s.obj, s.off, n*es)
		}
		return ts.BV(64, uint64(n))
	}
	if d.symLen != nil && !d.lazy || s.symLen != nil && !s.lazy {
		unsupported("copy on a length-only slice")
	}
	var n int
	if d.lazy {
		// the concrete source fits entirely, or the destination is shorter (then its length is enumerated)
		if vm.decide(ts.Ule(ts.BV(64, uint64(s.len)), d.symLen)) {
			n = s.len
		} else {
			n = vm.concreteInt(d.symLen)
		}
		vm.ensure(d.obj, d.off+n*es)
	} else {
		if vm.decide(ts.Ule(ts.BV(64, uint64(d.len)), s.symLen)) {
			n = d.len
		} else {
			n = vm.concreteInt(s.symLen)
		}
		vm.ensure(s.obj, s.off+n*es)
	}
	if n > 0 {
		vm.copyBytes(d.obj, d.off, s.obj, s.off, n*es)
	}
	return ts.BV(64, uint64(n))
}

func init() {
	intrinsics[vsymPath+".FrozenCopy"] = func(vm *VM, fr *frame, args []Value, cc *ssa.CallCommon) Value {
		s := vm.materialise(args[0].(Slice), 1)
		o := vm.newObj(s.len, "caller-buffer")
		if s.len > 0 {
			vm.copyBytes(o, 0, s.obj, s.off, s.len)
		}
		o.ro = true
		return Slice{obj: o, len: s.len, cap: s.len}
	}
	intrinsics[vsymPath+".Thaw"] = func(vm *VM, fr *frame, args []Value, cc *ssa.CallCommon) Value {
		if s := args[0].(Slice); s.obj != nil {
			s.obj.ro = false
		}
		return nil
	}
}

// materialise turns a lazily sized buffer into an ordinary slice by enumerating its feasible lengths.
func (vm *VM) materialise(s Slice, es int) Slice {
	if !s.lazy {
		if s.symLen != nil {
			unsupported("operation on a length-only slice")
		}
		return s
	}
	n := vm.concreteInt(s.symLen)
	vm.ensure(s.obj, s.off+n*es)
	return Slice{obj: s.obj, off: s.off, len: n, cap: n}
}

func init() {
	// sort.Slice(x, less): insertion sort through the less closure (the real one goes through reflectlite's swapper);
	// the result is the same sorted permutation for a strict weak order, stability aside (sort.Slice is not stable either).
	stub("sort.Slice", func(vm *VM, fr *frame, args []Value, cc *ssa.CallCommon) Value {
		ifc := args[0].(Iface)
		sl, ok := ifc.v.(Slice)
		if !ok {
			unsupported("sort.Slice on %T", ifc.v)
		}
		st, ok := ifc.t.Underlying().(*types.Slice)
		if !ok {
			unsupported("sort.Slice on %s", ifc.t)
		}
		es := sizeof(st.Elem())
		sl = vm.materialise(sl, es)
		less := args[1]
		tmp := vm.newObj(es, "sort-swap")
		for i := 1; i < sl.len; i++ {
			for j := i; j > 0; j-- {
				r := vm.callValue(fr, less, []Value{vm.ts.BV(64, uint64(j)), vm.ts.BV(64, uint64(j-1))}, nil)
				if !vm.decide(r.(*Term)) {
					break
				}
				a, b := sl.off+j*es, sl.off+(j-1)*es
				vm.copyBytes(tmp, 0, sl.obj, a, es)
				vm.copyBytes(sl.obj, a, sl.obj, b, es)
				vm.copyBytes(sl.obj, b, tmp, 0, es)
			}
		}
		return nil
	})
}
