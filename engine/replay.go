package main

// Native replay: the harnesses are compiled into the real packages (go test -c with an overlay,
// repo's own toolchain) and run on a tape obtained from a solver model.

import (
	"context"
	"encoding/json"
	"fmt"
	"os"
	"os/exec"
	"path/filepath"
	"strings"
	"sync"
	"time"
)

type Replayer struct {
	dir  string
	bins map[string]string
	errs map[string]error
	mu   sync.Mutex
	n    int
	Runs int
}

func NewReplayer() *Replayer {
	d, err := os.MkdirTemp("", "symgo-replay-")
	if err != nil {
		panic(err)
	}
	return &Replayer{dir: d, bins: map[string]string{}, errs: map[string]error{}}
}

func (r *Replayer) Close() { os.RemoveAll(r.dir) }

func (r *Replayer) bin(pkg string) (string, error) {
	r.mu.Lock()
	defer r.mu.Unlock()
	if b, ok := r.bins[pkg]; ok {
		return b, r.errs[pkg]
	}
	ov := struct{ Replace map[string]string }{overlayFiles()}
	ovPath := filepath.Join(r.dir, "overlay.json")
	b, _ := json.Marshal(ov)
	os.WriteFile(ovPath, b, 0o644)
	out := filepath.Join(r.dir, pkg+".test")
	sub := "./" + harnessPkgs[pkg]
	cmd := exec.Command("go", "test", "-c", "-vet=off", "-tags", "verif", "-overlay", ovPath, "-o", out, sub)
	cmd.Dir = repoDir
	cmd.Env = childEnv()
	msg, err := cmd.CombinedOutput()
	if err != nil {
		err = fmt.Errorf("building native replay binary for %s: %v\n%s", pkg, err, msg)
	}
	r.bins[pkg] = out
	r.errs[pkg] = err
	return out, err
}

type replayJob struct {
	Harness string         `json:"harness"`
	Params  map[string]int `json:"params"`
	Tape    []uint64       `json:"tape"`
}

// Run executes one tape; the returned error is non-nil only for infrastructure problems.
func (r *Replayer) Run(in *Instance, tape []uint64) (string, error) {
	bin, err := r.bin(in.Pkg)
	if err != nil {
		return "", err
	}
	r.mu.Lock()
	r.n++
	r.Runs++
	jp := filepath.Join(r.dir, fmt.Sprintf("job-%d.json", r.n))
	r.mu.Unlock()
	jb, _ := json.Marshal(replayJob{in.Func, in.Params, tape})
	os.WriteFile(jp, jb, 0o644)
	defer os.Remove(jp)
	return runReplayBinary(bin, jp, harnessDir(in.Pkg))
}

func harnessDir(pkg string) string { return filepath.Join(repoDir, harnessPkgs[pkg]) }

func runReplayBinary(bin, jobPath, dir string) (string, error) {
	ctx, cancel := context.WithTimeout(context.Background(), 120*time.Second)
	defer cancel()
	// The VM models runtime.NumCPU() as 2 (the worker count the library picks for parallelism 0). Run the native replay on two
	// CPUs when taskset is available so that the native run takes the same code paths; without taskset it runs unrestricted.
	args := []string{"-test.run", "^TestVerifReplay$", "-test.count=1", "-test.timeout=100s"}
	cmd := exec.CommandContext(ctx, bin, args...)
	if ts, err := exec.LookPath("taskset"); err == nil {
		cmd = exec.CommandContext(ctx, ts, append([]string{"-c", "0,1", bin}, args...)...)
	}
	cmd.Dir = dir
	cmd.Env = append(os.Environ(), "VERIF_JOB="+jobPath)
	out, _ := cmd.CombinedOutput()
	s := string(out)
	if ctx.Err() != nil {
		s += "\nVERIF-TIMEOUT\n"
	}
	return s, nil
}

type replayVerdict struct {
	Failed   bool // assertion failed or panic or timeout
	Label    string
	Done     bool
	Rejected bool
	Obs      []uint64
	Raw      string
}

func parseReplay(out string) replayVerdict {
	var v replayVerdict
	v.Raw = out
	for _, l := range strings.Split(out, "\n") {
		l = strings.TrimSpace(l)
		switch {
		case strings.HasPrefix(l, "VERIF-ASSERT-FAILED"):
			v.Failed = true
			v.Label = strings.TrimSpace(strings.TrimPrefix(l, "VERIF-ASSERT-FAILED"))
		case strings.HasPrefix(l, "VERIF-PANIC"):
			v.Failed = true
			v.Label = "panic: " + strings.TrimSpace(strings.TrimPrefix(l, "VERIF-PANIC"))
		case strings.HasPrefix(l, "panic:") || strings.HasPrefix(l, "fatal error:"):
			v.Failed = true
			if v.Label == "" {
				v.Label = l
			}
		case l == "VERIF-TIMEOUT":
			v.Failed = true
			v.Label = "timeout (hang)"
		case l == "VERIF-DONE":
			v.Done = true
		case l == "VERIF-ASSUME-REJECTED":
			v.Rejected = true
		case strings.HasPrefix(l, "VERIF-OBS "):
			var x uint64
			fmt.Sscanf(l, "VERIF-OBS %d", &x)
			v.Obs = append(v.Obs, x)
		}
	}
	return v
}
