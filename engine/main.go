package main

import (
	"flag"
	"fmt"
	"golang.org/x/tools/go/ssa"
	"os"
	"runtime"
	"runtime/debug"
	"sort"
	"strconv"
	"strings"
	"time"
)

func main() {
	debug.SetMemoryLimit(20 << 30)
	go func() {
		var ms runtime.MemStats
		for {
			time.Sleep(2 * time.Second)
			runtime.ReadMemStats(&ms)
			if ms.HeapAlloc > 28<<30 {
				memPressure.Store(true)
				time.Sleep(10 * time.Second)
				debug.FreeOSMemory()
				memPressure.Store(false)
			}
		}
	}()
	if len(os.Args) < 2 {
		fmt.Fprintln(os.Stderr, "usage: symgo dev|run|replay|selftest ...")
		os.Exit(2)
	}
	switch os.Args[1] {
	case "dev":
		devMain(os.Args[2:])
	case "run":
		os.Exit(runMain(os.Args[2:]))
	case "replay":
		os.Exit(replayMain(os.Args[2:]))
	case "selftest":
		os.Exit(selftestMain(os.Args[2:]))
	default:
		fmt.Fprintln(os.Stderr, "unknown command")
		os.Exit(2)
	}
}

func parseParams(s string) map[string]int {
	m := map[string]int{}
	if s == "" {
		return m
	}
	for _, kv := range strings.Split(s, ",") {
		p := strings.SplitN(kv, "=", 2)
		v, err := strconv.Atoi(p[1])
		if err != nil {
			panic(err)
		}
		m[p[0]] = v
	}
	return m
}

// dev: run one harness instance and print statistics (development aid)
func devMain(args []string) {
	fs := flag.NewFlagSet("dev", flag.ExitOnError)
	pkg := fs.String("pkg", "roaring", "harness package")
	fn := fs.String("func", "", "harness function")
	ps := fs.String("p", "", "params k=v,k=v")
	solver := fs.String("solver", "cvc5,z3-new", "solver portfolio")
	qt := fs.Int("qt", 20000, "per-query timeout ms")
	maxPaths := fs.Int("maxpaths", 0, "")
	replay := fs.Bool("replay", false, "replay witnesses / counterexamples natively")
	tapeS := fs.String("tape", "", "run on these concrete input values (comma separated)")
	fs.Parse(args)
	t0 := time.Now()
	l, err := loadRepo()
	if err != nil {
		fmt.Fprintln(os.Stderr, err)
		os.Exit(3)
	}
	fmt.Println("load+ssa", time.Since(t0).Round(time.Millisecond))
	if *tapeS != "" {
		concreteTape = []uint64{}
		for _, f := range strings.Split(*tapeS, ",") {
			v, _ := strconv.ParseUint(strings.TrimSpace(f), 10, 64)
			concreteTape = append(concreteTape, v)
		}
	}
	in := &Instance{Pkg: *pkg, Func: *fn, Params: parseParams(*ps), MaxPaths: *maxPaths}
	if os.Getenv("SYMGO_PROF") != "" {
		profSteps = map[*ssa.Function]int{}
	}
	r := l.runInstance(in, strings.Split(*solver, ","), *qt)
	printResult(r)
	fmt.Println("  host goroutines at end:", runtime.NumGoroutine())
	if profSteps != nil {
		type kv struct {
			f string
			n int
		}
		var xs []kv
		for f, n := range profSteps {
			xs = append(xs, kv{f.String(), n})
		}
		sort.Slice(xs, func(i, j int) bool { return xs[i].n > xs[j].n })
		for i := 0; i < 12 && i < len(xs); i++ {
			fmt.Printf("  prof %10d %s\n", xs[i].n, xs[i].f)
		}
	}
	if *replay {
		rp := NewReplayer()
		defer rp.Close()
		for _, w := range r.Witnesses {
			out, err := rp.Run(in, w.Tape)
			fmt.Println("witness replay:", err, summarize(out), "expected obs", w.Observed)
		}
		if r.Violation != nil {
			out, err := rp.Run(in, r.Violation.Tape)
			fmt.Println("cex replay:", err, summarize(out))
		}
	}
}

func summarize(out string) string {
	var keep []string
	for _, l := range strings.Split(out, "\n") {
		if strings.HasPrefix(l, "VERIF-") || strings.HasPrefix(l, "panic:") {
			keep = append(keep, l)
		}
	}
	return strings.Join(keep, " | ")
}

func printResult(r *InstResult) {
	fmt.Printf("%s: paths=%d ends=%v decisions=%d steps=%d asserts(folded=%d solver=%d) inputs=%d wall=%v\n", r.Inst.Name(), r.Paths, r.Ends, r.Decisions, r.Steps,
		r.AssertsFolded, r.AssertsSolver, r.Inputs, r.Wall.Round(time.Millisecond))
	fmt.Printf("  solver: queries=%d sat=%d unsat=%d unknown=%d fallbacks=%d time=%v max=%v\n", r.Stats.Queries, r.Stats.Sat, r.Stats.Unsat, r.Stats.Unknown, r.Stats.Fallbacks,
		r.Stats.Time.Round(time.Millisecond), r.Stats.MaxQuery.Round(time.Millisecond))
	fmt.Printf("  wins=%v\n", r.Wins)
	fmt.Printf("  labels=%v reached=%v\n", r.AssertLabels, r.Reached)
	for k, v := range r.EndMsgs {
		fmt.Printf("  end[%s]: %s\n", k, v)
	}
	if len(r.Inconclusive) > 0 {
		fmt.Printf("  INCONCLUSIVE: %v\n", r.Inconclusive)
	}
	if r.Violation != nil {
		fmt.Printf("  VIOLATION kind=%s label=%s where=%s tape=%v\n", r.Violation.Kind, r.Violation.Label, r.Violation.Where, r.Violation.Tape)
	}
	if os.Getenv("SYMGO_FNS") != "" {
		var fns []string
		for f := range r.FnsHit {
			fns = append(fns, f)
		}
		sort.Strings(fns)
		fmt.Println("  functions:", strings.Join(fns, " "))
	}
	fmt.Printf("  stubs=%v\n", r.StubsHit)
}
