package main

// Values and the flat, byte-addressed memory model.

import (
	"fmt"
	"go/types"

	"golang.org/x/tools/go/ssa"
)

type Value interface{}

// Obj is one allocation: size bytes, covered by non-overlapping cells; bytes outside every cell are zero.
type Obj struct {
	id      int
	size    int
	vals    []Value // dense: vals[o] != nil iff a cell starts at byte o
	csz     []uint8 // size of the cell starting at o, 0 if none
	ro      bool    // write-protected (vsym.Freeze)
	label   string
	lazyLen *Term // lazily sized buffer: its real size in bytes (symbolic); storage grows on demand
}

type Ptr struct {
	obj *Obj
	off int
}

// SymPtr addresses element idx (symbolic, already bounds-checked) of an n-element region of scalars:
// loads become ite chains over maximal runs of identical cells, stores become guarded updates.
type SymPtr struct {
	obj    *Obj
	off    int // byte offset of element 0 (plus any field offset)
	idx    *Term
	stride int
	n      int
}

type Slice struct {
	obj      *Obj
	off      int   // bytes
	len, cap int   // elements
	symLen   *Term // symbolic length: length-only slices (C14, no backing store) and lazily sized buffers
	lazy     bool  // lazily sized buffer: len = cap = symLen, backing object grows on demand (zero-filled)
}

type Str struct {
	obj *Obj
	off int
	n   int
}

type Iface struct {
	t types.Type
	v Value
}

type Tuple []Value

type Closure struct {
	fn *ssa.Function
	bs []Value
}

type MapObj struct {
	keys []Value
	vals []Value
	kt   types.Type
}

type pathEnd struct {
	kind string // "assume", "panic", "unsupported", "budget", "violation", "infeasible"
	msg  string
}

type goPanic struct {
	val Value
	msg string
}

const maxObjSize = 1 << 26

var sizes = types.SizesFor("gc", "amd64")

func (vm *VM) newObj(size int, label string) *Obj {
	if size < 0 || size > maxObjSize {
		panic(pathEnd{"unsupported", fmt.Sprintf("allocation of %d bytes", size)})
	}
	vm.nobj++
	vm.heapBytes += size
	if vm.heapBytes > vm.cfg.MaxHeap {
		panic(pathEnd{"budget", "heap budget exceeded"})
	}
	return &Obj{id: vm.nobj, size: size, vals: make([]Value, size), csz: make([]uint8, size), label: label}
}

func unsupported(format string, a ...interface{}) {
	panic(pathEnd{"unsupported", fmt.Sprintf(format, a...)})
}

// ---------- type helpers

func sizeof(t types.Type) int { return int(sizes.Sizeof(t)) }

func isBoolT(t types.Type) bool {
	b, ok := t.Underlying().(*types.Basic)
	return ok && b.Info()&types.IsBoolean != 0
}
func isIntT(t types.Type) bool {
	b, ok := t.Underlying().(*types.Basic)
	return ok && b.Info()&types.IsInteger != 0
}
func isStringT(t types.Type) bool {
	b, ok := t.Underlying().(*types.Basic)
	return ok && b.Info()&types.IsString != 0
}
func isSignedT(t types.Type) bool {
	b, ok := t.Underlying().(*types.Basic)
	return ok && b.Info()&types.IsInteger != 0 && b.Info()&types.IsUnsigned == 0
}
func isUnsafePtrT(t types.Type) bool {
	b, ok := t.Underlying().(*types.Basic)
	return ok && b.Kind() == types.UnsafePointer
}
func widthOf(t types.Type) uint8 {
	b, ok := t.Underlying().(*types.Basic)
	if !ok {
		panic("widthOf " + t.String())
	}
	switch b.Kind() {
	case types.Bool, types.UntypedBool:
		return 0
	case types.Int8, types.Uint8:
		return 8
	case types.Int16, types.Uint16:
		return 16
	case types.Int32, types.Uint32:
		return 32
	case types.Int, types.Uint, types.Int64, types.Uint64, types.Uintptr, types.UntypedInt, types.UntypedRune:
		return 64
	}
	panic("widthOf " + t.String())
}

func (vm *VM) zero(t types.Type) Value {
	switch u := t.Underlying().(type) {
	case *types.Basic:
		switch {
		case u.Info()&types.IsBoolean != 0:
			return vm.ts.tFalse
		case u.Info()&types.IsInteger != 0:
			return vm.ts.BV(widthOf(t), 0)
		case u.Info()&types.IsString != 0:
			return Str{}
		case u.Kind() == types.UnsafePointer:
			return Ptr{}
		case u.Kind() == types.UntypedNil:
			return nil
		}
		unsupported("zero value of %s", t)
	case *types.Struct:
		tu := make(Tuple, u.NumFields())
		for i := range tu {
			tu[i] = vm.zero(u.Field(i).Type())
		}
		return tu
	case *types.Array:
		tu := make(Tuple, u.Len())
		for i := range tu {
			tu[i] = vm.zero(u.Elem())
		}
		return tu
	case *types.Slice:
		return Slice{}
	case *types.Interface:
		return Iface{}
	case *types.Pointer:
		return Ptr{}
	case *types.Signature:
		return (*Closure)(nil)
	case *types.Map:
		return (*MapObj)(nil)
	case *types.Chan:
		return (*ChanObj)(nil)
	case *types.Tuple:
		tu := make(Tuple, u.Len())
		for i := range tu {
			tu[i] = vm.zero(u.At(i).Type())
		}
		return tu
	}
	unsupported("zero value of %s", t)
	return nil
}

// ---------- cells

// cover returns the start of the cell covering byte b, or -1.
func (o *Obj) cover(b int) int {
	if o.csz[b] > 0 {
		return b
	}
	lim := b - 24
	if lim < 0 {
		lim = -1
	}
	for p := b - 1; p > lim; p-- {
		if s := int(o.csz[p]); s > 0 {
			if s > b-p {
				return p
			}
			return -1
		}
	}
	return -1
}

func (vm *VM) byteAt(o *Obj, b int) *Term {
	p := o.cover(b)
	if p < 0 {
		return vm.ts.BV(8, 0)
	}
	t, ok := o.vals[p].(*Term)
	if !ok {
		unsupported("byte-level read of a pointer-like cell in %s", o.label)
	}
	if t.w == 0 {
		return vm.ts.BoolToBV(t, 8)
	}
	k := uint8(b-p) * 8
	return vm.ts.Extract(k+7, k, t)
}

// explode splits the scalar cell starting at p into byte cells.
func (vm *VM) explode(o *Obj, p int) {
	n := int(o.csz[p])
	if n <= 1 {
		return
	}
	t, ok := o.vals[p].(*Term)
	if !ok {
		unsupported("partial overwrite of a pointer-like cell in %s", o.label)
	}
	for i := 0; i < n; i++ {
		k := uint8(i) * 8
		o.vals[p+i] = vm.ts.Extract(k+7, k, t)
		o.csz[p+i] = 1
	}
}

// clearRange removes all cells intersecting [off, off+n), splitting cells that stick out.
func (vm *VM) clearRange(o *Obj, off, n int) {
	if p := o.cover(off); p >= 0 && p < off {
		vm.explode(o, p)
	}
	end := off + n
	if end < o.size {
		if p := o.cover(end); p >= 0 && p < end {
			vm.explode(o, p)
		}
	}
	for b := off; b < end; b++ {
		if o.csz[b] > 0 {
			o.csz[b] = 0
			o.vals[b] = nil
		}
	}
}

func (vm *VM) checkRange(o *Obj, off, n int, what string) {
	if o == nil {
		panic(goPanic{msg: "nil pointer dereference (" + what + ")"})
	}
	if off >= 0 && off+n > o.size && o.lazyLen != nil {
		// lazily sized buffer: inside its (symbolic) real size the access is fine, storage is materialised now
		if vm.decide(vm.ts.Ule(vm.ts.BV(64, uint64(off+n)), o.lazyLen)) {
			vm.ensure(o, off+n)
			return
		}
	}
	if off < 0 || off+n > o.size {
		// a native program would read/write outside the allocation: memory-safety violation
		panic(pathEnd{"oob", fmt.Sprintf("%s of %d bytes at offset %d outside object %s of %d bytes", what, n, off, o.label, o.size)})
	}
}

func (vm *VM) loadScalar(o *Obj, off, n int) *Term {
	vm.checkRange(o, off, n, "load")
	if int(o.csz[off]) == n {
		if t, ok := o.vals[off].(*Term); ok {
			if t.w == 0 {
				return vm.ts.BoolToBV(t, 8)
			}
			return t
		}
	}
	acc := vm.byteAt(o, off+n-1)
	for i := n - 2; i >= 0; i-- {
		acc = vm.ts.Concat(acc, vm.byteAt(o, off+i))
	}
	return acc
}

func (vm *VM) storeCell(o *Obj, off, n int, v Value) {
	vm.checkRange(o, off, n, "store")
	if o.ro {
		panic(pathEnd{"rowrite", fmt.Sprintf("store of %d bytes at offset %d into write-protected object %s", n, off, o.label)})
	}
	if int(o.csz[off]) != n {
		vm.clearRange(o, off, n)
	}
	o.vals[off] = v
	o.csz[off] = uint8(n)
}

// loadFat loads a pointer-like value (pointer, slice, interface, string, func, map, chan).
func (vm *VM) loadFat(o *Obj, off, n int, t types.Type) Value {
	vm.checkRange(o, off, n, "load")
	if int(o.csz[off]) == n {
		if _, isTerm := o.vals[off].(*Term); !isTerm {
			return o.vals[off]
		}
	}
	// untouched or explicitly zero bytes read as the zero value
	for b := off; b < off+n; b++ {
		p := o.cover(b)
		if p < 0 {
			continue
		}
		if tt, ok := o.vals[p].(*Term); ok && tt.op == OpConst && tt.c == 0 {
			continue
		}
		unsupported("load of %s from bytes that do not hold such a value (object %s offset %d)", t, o.label, off)
	}
	return vm.zero(t)
}

func (vm *VM) load(p Ptr, t types.Type) Value {
	switch u := t.Underlying().(type) {
	case *types.Basic:
		switch {
		case u.Info()&types.IsBoolean != 0:
			vm.checkRange(p.obj, p.off, 1, "load")
			if p.obj.csz[p.off] == 1 {
				if tt, ok := p.obj.vals[p.off].(*Term); ok && tt.w == 0 {
					return tt
				}
			}
			b := vm.loadScalar(p.obj, p.off, 1)
			return vm.ts.Not(vm.ts.Eq(b, vm.ts.BV(8, 0)))
		case u.Info()&types.IsInteger != 0:
			return vm.loadScalar(p.obj, p.off, sizeof(t))
		case u.Info()&types.IsString != 0:
			return vm.loadFat(p.obj, p.off, 16, t)
		case u.Kind() == types.UnsafePointer:
			return vm.loadFat(p.obj, p.off, 8, t)
		}
		unsupported("load of %s", t)
	case *types.Struct:
		if p.obj == nil {
			panic(goPanic{msg: "nil pointer dereference (load struct)"})
		}
		offs := vm.fieldOffsets(u)
		tu := make(Tuple, u.NumFields())
		for i := range tu {
			tu[i] = vm.load(Ptr{p.obj, p.off + offs[i]}, u.Field(i).Type())
		}
		return tu
	case *types.Array:
		if p.obj == nil {
			panic(goPanic{msg: "nil pointer dereference (load array)"})
		}
		es := sizeof(u.Elem())
		tu := make(Tuple, u.Len())
		for i := range tu {
			tu[i] = vm.load(Ptr{p.obj, p.off + i*es}, u.Elem())
		}
		return tu
	case *types.Pointer, *types.Signature, *types.Map, *types.Chan:
		return vm.loadFat(p.obj, p.off, 8, t)
	case *types.Slice:
		return vm.loadFat(p.obj, p.off, 24, t)
	case *types.Interface:
		return vm.loadFat(p.obj, p.off, 16, t)
	}
	unsupported("load of %s", t)
	return nil
}

func (vm *VM) store(p Ptr, v Value, t types.Type) {
	switch u := t.Underlying().(type) {
	case *types.Basic:
		switch {
		case u.Info()&types.IsBoolean != 0:
			vm.storeCell(p.obj, p.off, 1, v)
			return
		case u.Info()&types.IsInteger != 0:
			vm.storeCell(p.obj, p.off, sizeof(t), v)
			return
		case u.Info()&types.IsString != 0:
			vm.storeCell(p.obj, p.off, 16, v)
			return
		case u.Kind() == types.UnsafePointer:
			vm.storeCell(p.obj, p.off, 8, v)
			return
		}
		unsupported("store of %s", t)
	case *types.Struct:
		if p.obj == nil {
			panic(goPanic{msg: "nil pointer dereference (store struct)"})
		}
		offs := vm.fieldOffsets(u)
		tu := v.(Tuple)
		for i := range tu {
			vm.store(Ptr{p.obj, p.off + offs[i]}, tu[i], u.Field(i).Type())
		}
		return
	case *types.Array:
		if p.obj == nil {
			panic(goPanic{msg: "nil pointer dereference (store array)"})
		}
		es := sizeof(u.Elem())
		tu := v.(Tuple)
		for i := range tu {
			vm.store(Ptr{p.obj, p.off + i*es}, tu[i], u.Elem())
		}
		return
	case *types.Pointer, *types.Signature, *types.Map, *types.Chan:
		vm.storeCell(p.obj, p.off, 8, v)
		return
	case *types.Slice:
		vm.storeCell(p.obj, p.off, 24, v)
		return
	case *types.Interface:
		vm.storeCell(p.obj, p.off, 16, v)
		return
	}
	unsupported("store of %s", t)
}

func (vm *VM) fieldOffsets(st *types.Struct) []int {
	if o, ok := vm.offCache[st]; ok {
		return o
	}
	fs := make([]*types.Var, st.NumFields())
	for i := range fs {
		fs[i] = st.Field(i)
	}
	o64 := sizes.Offsetsof(fs)
	o := make([]int, len(o64))
	for i := range o {
		o[i] = int(o64[i])
	}
	vm.offCache[st] = o
	return o
}

// copyBytes has memmove semantics.
func (vm *VM) copyBytes(dst *Obj, doff int, src *Obj, soff int, n int) {
	if n == 0 {
		return
	}
	vm.checkRange(src, soff, n, "copy-from")
	vm.checkRange(dst, doff, n, "copy-to")
	if dst.ro {
		panic(pathEnd{"rowrite", fmt.Sprintf("copy of %d bytes into write-protected object %s at offset %d", n, dst.label, doff)})
	}
	if dst == src && doff == soff {
		return
	}
	type cell struct {
		rel int
		sz  uint8
		v   Value
	}
	cells := make([]cell, 0, 16)
	b := soff
	end := soff + n
	for b < end {
		p := src.cover(b)
		if p < 0 {
			b++
			continue
		}
		sz := int(src.csz[p])
		if p == b && b+sz <= end {
			cells = append(cells, cell{b - soff, uint8(sz), src.vals[p]})
			b += sz
			continue
		}
		// partial cell: byte-wise
		cells = append(cells, cell{b - soff, 1, vm.byteAt(src, b)})
		b++
	}
	vm.clearRange(dst, doff, n)
	for _, c := range cells {
		dst.vals[doff+c.rel] = c.v
		dst.csz[doff+c.rel] = c.sz
	}
}

// ---------- strings

func (vm *VM) strConst(s string) Str {
	if len(s) == 0 {
		return Str{}
	}
	if st, ok := vm.strCache[s]; ok {
		return st
	}
	o := vm.newObj(len(s), "string-const")
	for i := 0; i < len(s); i++ {
		o.vals[i] = vm.ts.BV(8, uint64(s[i]))
		o.csz[i] = 1
	}
	o.ro = true
	st := Str{o, 0, len(s)}
	vm.strCache[s] = st
	return st
}

// goString returns the concrete contents if all bytes are constants.
func (vm *VM) goString(s Str) (string, bool) {
	b := make([]byte, s.n)
	for i := 0; i < s.n; i++ {
		t := vm.byteAt(s.obj, s.off+i)
		if t.op != OpConst {
			return "", false
		}
		b[i] = byte(t.c)
	}
	return string(b), true
}

// ---------- equality of values

func (vm *VM) valueEq(a, b Value, t types.Type) *Term {
	ts := vm.ts
	switch x := a.(type) {
	case *Term:
		return ts.Eq(x, b.(*Term))
	case Ptr:
		y := b.(Ptr)
		return ts.Bool(x.obj == y.obj && (x.obj == nil || x.off == y.off))
	case Iface:
		y := b.(Iface)
		if x.t == nil || y.t == nil {
			return ts.Bool(x.t == nil && y.t == nil)
		}
		if !types.Identical(x.t, y.t) {
			return ts.tFalse
		}
		return vm.valueEq(x.v, y.v, x.t)
	case Tuple:
		y := b.(Tuple)
		acc := ts.tTrue
		switch u := t.Underlying().(type) {
		case *types.Struct:
			for i := range x {
				acc = ts.And(acc, vm.valueEq(x[i], y[i], u.Field(i).Type()))
			}
		case *types.Array:
			for i := range x {
				acc = ts.And(acc, vm.valueEq(x[i], y[i], u.Elem()))
			}
		default:
			unsupported("tuple equality on %s", t)
		}
		return acc
	case Str:
		y := b.(Str)
		if x.n != y.n {
			return ts.tFalse
		}
		acc := ts.tTrue
		for i := 0; i < x.n; i++ {
			acc = ts.And(acc, ts.Eq(vm.byteAt(x.obj, x.off+i), vm.byteAt(y.obj, y.off+i)))
		}
		return acc
	case *Closure:
		y, ok := b.(*Closure)
		return ts.Bool(ok && x == y)
	case *MapObj:
		y, _ := b.(*MapObj)
		return ts.Bool(x == y)
	case *ChanObj:
		y, _ := b.(*ChanObj)
		return ts.Bool(x == y)
	case Slice:
		// only comparison with nil is legal
		y := b.(Slice)
		return ts.Bool(x.obj == nil && y.obj == nil)
	case nil:
		switch y := b.(type) {
		case nil:
			return ts.tTrue
		case Ptr:
			return ts.Bool(y.obj == nil)
		case Iface:
			return ts.Bool(y.t == nil)
		}
	case *ssa.Function:
		y, _ := b.(*ssa.Function)
		return ts.Bool(x == y)
	}
	unsupported("equality on %T", a)
	return nil
}

// scalarOnly reports whether t contains only integers/bools (so that symbolic element selection can use ite).
func scalarOnly(t types.Type) bool {
	switch u := t.Underlying().(type) {
	case *types.Basic:
		return u.Info()&(types.IsInteger|types.IsBoolean) != 0
	case *types.Struct:
		for i := 0; i < u.NumFields(); i++ {
			if !scalarOnly(u.Field(i).Type()) {
				return false
			}
		}
		return true
	case *types.Array:
		return scalarOnly(u.Elem())
	}
	return false
}

func (vm *VM) symLoad(p SymPtr, t types.Type) Value {
	ts := vm.ts
	switch u := t.Underlying().(type) {
	case *types.Struct:
		offs := vm.fieldOffsets(u)
		tu := make(Tuple, u.NumFields())
		for i := range tu {
			q := p
			q.off += offs[i]
			tu[i] = vm.symLoad(q, u.Field(i).Type())
		}
		return tu
	case *types.Array:
		es := sizeof(u.Elem())
		tu := make(Tuple, u.Len())
		for i := range tu {
			q := p
			q.off += i * es
			tu[i] = vm.symLoad(q, u.Elem())
		}
		return tu
	}
	isBool := isBoolT(t)
	sz := sizeof(t)
	type seg struct {
		lo, hi int
		v      *Term
	}
	var segs []seg
	for i := 0; i < p.n; i++ {
		var v *Term
		if isBool {
			v = vm.load(Ptr{p.obj, p.off + i*p.stride}, t).(*Term)
		} else {
			v = vm.loadScalar(p.obj, p.off+i*p.stride, sz)
		}
		if k := len(segs); k > 0 && segs[k-1].v == v {
			segs[k-1].hi = i
		} else {
			segs = append(segs, seg{i, i, v})
		}
	}
	acc := segs[len(segs)-1].v
	for k := len(segs) - 2; k >= 0; k-- {
		sg := segs[k]
		var c *Term
		if sg.lo == sg.hi {
			c = ts.Eq(p.idx, ts.BV(64, uint64(sg.lo)))
		} else if sg.lo == 0 {
			c = ts.Ule(p.idx, ts.BV(64, uint64(sg.hi)))
		} else {
			c = ts.And(ts.Ule(ts.BV(64, uint64(sg.lo)), p.idx), ts.Ule(p.idx, ts.BV(64, uint64(sg.hi))))
		}
		acc = ts.Ite(c, sg.v, acc)
	}
	return acc
}

func (vm *VM) symStore(p SymPtr, v Value, t types.Type) {
	ts := vm.ts
	switch u := t.Underlying().(type) {
	case *types.Struct:
		offs := vm.fieldOffsets(u)
		for i, f := range v.(Tuple) {
			q := p
			q.off += offs[i]
			vm.symStore(q, f, u.Field(i).Type())
		}
		return
	case *types.Array:
		es := sizeof(u.Elem())
		for i, f := range v.(Tuple) {
			q := p
			q.off += i * es
			vm.symStore(q, f, u.Elem())
		}
		return
	}
	nv := v.(*Term)
	sz := sizeof(t)
	isBool := isBoolT(t)
	for i := 0; i < p.n; i++ {
		c := ts.Eq(p.idx, ts.BV(64, uint64(i)))
		if c.IsFalse() {
			continue
		}
		off := p.off + i*p.stride
		var old *Term
		if isBool {
			old = vm.load(Ptr{p.obj, off}, t).(*Term)
		} else {
			old = vm.loadScalar(p.obj, off, sz)
		}
		vm.storeCell(p.obj, off, sz, ts.Ite(c, nv, old))
	}
}

// concretePtr turns a SymPtr into an ordinary pointer by forking over the index.
func (vm *VM) concretePtr(v Value) Ptr {
	switch p := v.(type) {
	case Ptr:
		return p
	case SymPtr:
		i := vm.concreteInt(p.idx)
		return Ptr{p.obj, p.off + i*p.stride}
	}
	panic(fmt.Sprintf("concretePtr on %T", v))
}

// ensure grows a lazily sized object so that it holds at least size bytes.
func (vm *VM) ensure(o *Obj, size int) {
	if size <= o.size {
		return
	}
	if size > maxObjSize {
		panic(pathEnd{"budget", "lazily sized buffer grew beyond the object size limit"})
	}
	vm.heapBytes += size - o.size
	if vm.heapBytes > vm.cfg.MaxHeap {
		panic(pathEnd{"budget", "heap budget exceeded"})
	}
	nv := make([]Value, size)
	nc := make([]uint8, size)
	copy(nv, o.vals)
	copy(nc, o.csz)
	o.vals, o.csz, o.size = nv, nc, size
}
