package main

// Long-lived SMT solver processes spoken to over pipes (SMT-LIB2), with the path condition kept
// asserted under nested push levels, plus a one-shot portfolio fallback for undecided queries.

import (
	"bufio"
	"context"
	"fmt"
	"io"
	"os"
	"os/exec"
	"strconv"
	"strings"
	"time"
)

type Res int

const (
	Unsat Res = iota
	Sat
	Unknown
)

func (r Res) String() string { return [...]string{"unsat", "sat", "unknown"}[r] }

type SolverStats struct {
	Queries, Sat, Unsat, Unknown int
	Fallbacks, FallbackDecided   int
	Time                         time.Duration
	MaxQuery                     time.Duration
	Errors                       int
}

type Solver struct {
	ts        *TermStore
	kind      string // "z3-new", "z3", "cvc5"
	cmd       *exec.Cmd
	in        *bufio.Writer
	inRaw     io.WriteCloser
	out       *bufio.Reader
	defined   []bool
	stack     []*Term
	stats     SolverStats
	timeoutMs int
	fbTimeout int // seconds for fallback solvers
	logf      *os.File
	dead      bool
	flat      bool // re-assert the whole path condition per query instead of nested scopes
}

func solverArgs(kind string, timeoutMs int) (string, []string) {
	switch kind {
	case "z3-new":
		return "z3-new", []string{"-in"}
	case "z3":
		return "z3", []string{"-in"}
	case "cvc5":
		return "cvc5", []string{"--incremental", "--produce-models", "--lang=smt2", fmt.Sprintf("--tlimit-per=%d", timeoutMs)}
	case "cvc5-int":
		// integer encoding that keeps the mod-2^k semantics: decides linear arithmetic that stalls bit-blasting
		return "cvc5", []string{"--incremental", "--produce-models", "--lang=smt2", "--solve-bv-as-int=sum", fmt.Sprintf("--tlimit-per=%d", timeoutMs)}
	}
	panic("solver kind")
}

func NewSolver(ts *TermStore, kind string, timeoutMs int) *Solver {
	bin, args := solverArgs(kind, timeoutMs)
	// CPU and address-space limits bound a runaway or orphaned solver process; a solver that dies is restarted
	// and its query counts as unknown (see safeCheck).
	sh := "ulimit -t 1200; ulimit -v 6000000; exec " + bin + " " + strings.Join(args, " ")
	cmd := exec.Command("sh", "-c", sh)
	in, _ := cmd.StdinPipe()
	out, _ := cmd.StdoutPipe()
	cmd.Stderr = nil
	if err := cmd.Start(); err != nil {
		panic(err)
	}
	s := &Solver{ts: ts, kind: kind, flat: !strings.HasPrefix(kind, "cvc5"), cmd: cmd, inRaw: in, in: bufio.NewWriterSize(in, 1<<16), out: bufio.NewReaderSize(out, 1<<16), timeoutMs: timeoutMs, fbTimeout: 120}
	if p := os.Getenv("SYMGO_SMTLOG"); p != "" {
		s.logf, _ = os.OpenFile(p, os.O_CREATE|os.O_WRONLY|os.O_APPEND, 0o644)
	}
	s.send("(set-option :global-declarations true)\n")
	s.send("(set-option :produce-models true)\n")
	if !strings.HasPrefix(kind, "cvc5") {
		s.send(fmt.Sprintf("(set-option :timeout %d)\n", timeoutMs))
	} else {
		s.send("(set-logic QF_BV)\n")
	}
	return s
}

func (s *Solver) send(str string) {
	s.in.WriteString(str)
	if s.logf != nil {
		s.logf.WriteString(str)
	}
}

func (s *Solver) Close() {
	if s.dead {
		return
	}
	s.dead = true
	s.in.Flush()
	s.inRaw.Close()
	done := make(chan struct{})
	go func() { s.cmd.Wait(); close(done) }()
	select {
	case <-done:
	case <-time.After(2 * time.Second):
		s.cmd.Process.Kill()
		<-done
	}
	if s.logf != nil {
		s.logf.Close()
	}
}

func (s *Solver) define(t *Term) {
	if int(t.id) < len(s.defined) && s.defined[t.id] {
		return
	}
	if t.op == OpConst {
		return
	}
	// iterative post-order to avoid deep recursion on long chains
	type fr struct {
		t *Term
		i int
	}
	st := []fr{{t, 0}}
	for len(st) > 0 {
		f := &st[len(st)-1]
		if f.i < len(f.t.args) {
			a := f.t.args[f.i]
			f.i++
			if a.op != OpConst && !(int(a.id) < len(s.defined) && s.defined[a.id]) {
				st = append(st, fr{a, 0})
			}
			continue
		}
		u := f.t
		st = st[:len(st)-1]
		if int(u.id) < len(s.defined) && s.defined[u.id] {
			continue
		}
		for int(u.id) >= len(s.defined) {
			s.defined = append(s.defined, make([]bool, len(s.defined)+1024)...)
		}
		s.defined[u.id] = true
		if u.op == OpVar {
			s.send(fmt.Sprintf("(declare-const %s %s)\n", u.ref(), u.sortName()))
		} else {
			s.send(fmt.Sprintf("(define-fun %s () %s %s)\n", u.ref(), u.sortName(), u.body()))
		}
	}
}

// sync aligns the solver's assertion stack with pc.
func (s *Solver) sync(pc []*Term) {
	n := 0
	for n < len(s.stack) && n < len(pc) && s.stack[n] == pc[n] {
		n++
	}
	if d := len(s.stack) - n; d > 0 {
		s.send(fmt.Sprintf("(pop %d)\n", d))
		s.stack = s.stack[:n]
	}
	for _, p := range pc[n:] {
		s.define(p)
		s.send("(push 1)\n(assert " + p.ref() + ")\n")
		s.stack = append(s.stack, p)
	}
}

func (s *Solver) readLine() string {
	line, err := s.out.ReadString('\n')
	if err != nil {
		panic(fmt.Sprintf("solver %s died: %v", s.kind, err))
	}
	return strings.TrimSpace(line)
}

// readSexp reads one balanced s-expression (possibly spanning lines).
func (s *Solver) readSexp() string {
	var sb strings.Builder
	depth := 0
	started := false
	for {
		line, err := s.out.ReadString('\n')
		if err != nil {
			panic(fmt.Sprintf("solver %s died: %v", s.kind, err))
		}
		sb.WriteString(line)
		for _, ch := range line {
			if ch == '(' {
				depth++
				started = true
			} else if ch == ')' {
				depth--
			}
		}
		if started && depth <= 0 {
			return sb.String()
		}
		if !started && strings.TrimSpace(line) != "" {
			return sb.String()
		}
	}
}

// Check decides satisfiability of pc ∧ extra. If wantModel and the answer is sat, the values of vars are returned.
func (s *Solver) Check(pc []*Term, extra *Term, wantModel bool, vars []*Term) (Res, Model) {
	t0 := time.Now()
	if s.flat {
		for _, p := range pc {
			s.define(p)
		}
		if extra != nil {
			s.define(extra)
		}
		s.send("(push 1)\n")
		for _, p := range pc {
			s.send("(assert " + p.ref() + ")\n")
		}
		if extra == nil {
			extra = s.ts.tTrue
		}
		s.send("(assert " + extra.ref() + ")\n")
	} else {
		s.sync(pc)
		if extra != nil {
			s.define(extra)
			s.send("(push 1)\n(assert " + extra.ref() + ")\n")
		}
	}
	s.send("(check-sat)\n")
	s.in.Flush()
	var res Res
	errSeen := false
	var line string
	for {
		line = s.readLine()
		if line == "" {
			continue
		}
		if strings.HasPrefix(line, "(error") {
			// an error line makes the query inconclusive; the verdict line still follows
			errSeen = true
			s.stats.Errors++
			fmt.Fprintf(os.Stderr, "solver %s: %s\n", s.kind, line)
			continue
		}
		break
	}
	switch line {
	case "sat":
		res = Sat
	case "unsat":
		res = Unsat
	default:
		res = Unknown
	}
	if errSeen {
		res = Unknown
	}
	var m Model
	if res == Sat && wantModel {
		m = s.getModel(vars)
	}
	if extra != nil {
		s.send("(pop 1)\n")
	}
	d := time.Since(t0)
	s.stats.Queries++
	s.stats.Time += d
	if d > s.stats.MaxQuery {
		s.stats.MaxQuery = d
	}
	switch res {
	case Sat:
		s.stats.Sat++
	case Unsat:
		s.stats.Unsat++
	default:
		s.stats.Unknown++
	}
	return res, m
}

func (s *Solver) getModel(vars []*Term) Model {
	m := Model{}
	var ask []*Term
	for _, v := range vars {
		if int(v.id) < len(s.defined) && s.defined[v.id] {
			ask = append(ask, v)
		}
	}
	if len(ask) == 0 {
		return m
	}
	var sb strings.Builder
	sb.WriteString("(get-value (")
	for _, v := range ask {
		sb.WriteString(v.ref())
		sb.WriteByte(' ')
	}
	sb.WriteString("))\n")
	s.send(sb.String())
	s.in.Flush()
	txt := s.readSexp()
	parseModel(txt, ask, m)
	return m
}

func parseModel(txt string, ask []*Term, m Model) {
	byName := map[string]*Term{}
	for _, v := range ask {
		byName[v.ref()] = v
	}
	// tokens: ( name value )
	f := strings.Fields(strings.NewReplacer("(", " ( ", ")", " ) ").Replace(txt))
	for i := 0; i+1 < len(f); i++ {
		v, ok := byName[f[i]]
		if !ok {
			continue
		}
		val := f[i+1]
		switch {
		case val == "true":
			m[v.id] = 1
		case val == "false":
			m[v.id] = 0
		case strings.HasPrefix(val, "#x"):
			u, _ := strconv.ParseUint(val[2:], 16, 64)
			m[v.id] = u
		case strings.HasPrefix(val, "#b"):
			u, _ := strconv.ParseUint(val[2:], 2, 64)
			m[v.id] = u
		case val == "(" && i+3 < len(f) && f[i+2] == "_" && strings.HasPrefix(f[i+3], "bv"):
			u, _ := strconv.ParseUint(f[i+3][2:], 10, 64)
			m[v.id] = u
		}
	}
}

// standalone renders pc ∧ extra as a self-contained script.
func (s *Solver) standalone(pc []*Term, extra *Term, vars []*Term) string {
	var sb strings.Builder
	seen := map[int32]bool{}
	var emit func(t *Term)
	emit = func(t *Term) {
		type fr struct {
			t *Term
			i int
		}
		st := []fr{{t, 0}}
		for len(st) > 0 {
			f := &st[len(st)-1]
			if f.i < len(f.t.args) {
				a := f.t.args[f.i]
				f.i++
				if a.op != OpConst && !seen[a.id] {
					st = append(st, fr{a, 0})
				}
				continue
			}
			u := f.t
			st = st[:len(st)-1]
			if seen[u.id] || u.op == OpConst {
				continue
			}
			seen[u.id] = true
			if u.op == OpVar {
				fmt.Fprintf(&sb, "(declare-const %s %s)\n", u.ref(), u.sortName())
			} else {
				fmt.Fprintf(&sb, "(define-fun %s () %s %s)\n", u.ref(), u.sortName(), u.body())
			}
		}
	}
	all := append([]*Term{}, pc...)
	if extra != nil {
		all = append(all, extra)
	}
	for _, p := range all {
		emit(p)
	}
	for _, p := range all {
		sb.WriteString("(assert " + p.ref() + ")\n")
	}
	sb.WriteString("(check-sat)\n")
	var ask []string
	for _, v := range vars {
		if seen[v.id] {
			ask = append(ask, v.ref())
		}
	}
	if len(ask) > 0 {
		sb.WriteString("(get-value (" + strings.Join(ask, " ") + "))\n")
	}
	return sb.String()
}

// fallback runs the other solvers of the portfolio one-shot, in parallel; first definite answer wins.
func (s *Solver) fallback(pc []*Term, extra *Term, wantModel bool, vars []*Term) (Res, Model) {
	s.stats.Fallbacks++
	script := s.standalone(pc, extra, vars)
	f, err := os.CreateTemp("", "symgo-q-*.smt2")
	if err != nil {
		return Unknown, nil
	}
	defer os.Remove(f.Name())
	f.WriteString(script)
	f.Close()
	type out struct {
		res Res
		txt string
	}
	ctx, cancel := context.WithTimeout(context.Background(), time.Duration(s.fbTimeout)*time.Second)
	defer cancel()
	cmds := [][]string{}
	for _, k := range []string{"z3-new", "z3", "cvc5"} {
		switch k {
		case "z3-new", "z3":
			cmds = append(cmds, []string{k, fmt.Sprintf("-T:%d", s.fbTimeout), f.Name()})
		case "cvc5":
			cmds = append(cmds, []string{"cvc5", "--produce-models", fmt.Sprintf("--tlimit=%d", s.fbTimeout*1000), f.Name()})
		}
	}
	ch := make(chan out, len(cmds))
	for _, c := range cmds {
		c := c
		go func() {
			b, _ := exec.CommandContext(ctx, c[0], c[1:]...).Output()
			txt := string(b)
			r := Unknown
			first := strings.TrimSpace(strings.SplitN(txt, "\n", 2)[0])
			if !strings.Contains(txt, "(error") {
				if first == "sat" {
					r = Sat
				} else if first == "unsat" {
					r = Unsat
				}
			}
			ch <- out{r, txt}
		}()
	}
	for range cmds {
		o := <-ch
		if o.res != Unknown {
			cancel()
			s.stats.FallbackDecided++
			var m Model
			if o.res == Sat && wantModel {
				m = Model{}
				if i := strings.Index(o.txt, "\n"); i >= 0 {
					parseModel(o.txt[i:], vars, m)
				}
			}
			return o.res, m
		}
	}
	return Unknown, nil
}
