package main

// Instance tables: property × tier -> harness instances (harness function × concrete parameter vector).
// Each instance is one exhaustive symbolic exploration.

import (
	"strings"
	"time"
)

func P(kv ...interface{}) map[string]int {
	m := map[string]int{}
	for i := 0; i+1 < len(kv); i += 2 {
		m[kv[i].(string)] = kv[i+1].(int)
	}
	return m
}

func with(base map[string]int, kv ...interface{}) map[string]int {
	m := map[string]int{}
	for k, v := range base {
		m[k] = v
	}
	for i := 0; i+1 < len(kv); i += 2 {
		m[kv[i].(string)] = kv[i+1].(int)
	}
	return m
}

type shape struct{ k, s int }

const (
	kA = 0
	kB = 1
	kR = 2
)

func instancesFor(prop, tier string) []*Instance {
	thorough := tier == "thorough"
	var out []*Instance
	add := func(in *Instance) {
		in.Property = prop
		if in.Pkg == "" {
			in.Pkg = "roaring"
		}
		if in.Tier == 1 && !thorough {
			return
		}
		if in.Timeout == 0 {
			in.Timeout = 300 * time.Second
			if thorough {
				in.Timeout = 20 * time.Minute
			}
		}
		out = append(out, in)
	}
	switch prop {
	case "C01":
		c01Instances(add, thorough, 0)
	case "C09":
		c09Instances(add, thorough)
	case "C02":
		c02Instances(add, thorough, 0)
	case "C14":
		c14Instances(add, thorough)
	case "C04":
		c04Instances(add, thorough)
	case "C05":
		c05Instances(add, thorough)
	case "C06":
		c06Instances(add, thorough)
	case "C10":
		c10Instances(add, thorough)
	case "C13":
		c13Instances(add, thorough)
	case "C07":
		c07Instances(add, thorough)
		c07MoreInstances(add, thorough)
	case "C11":
		c11Instances(add, thorough, 0)
	case "C16":
		c16Instances(add, thorough)
	case "C19":
		c19Instances(add, thorough)
	case "C20":
		c20Instances(add, thorough)
	case "C17":
		c17Instances(add, thorough)
	case "C18":
		c18Instances(add, thorough)
	case "C08":
		c08Instances(add, thorough)
	case "C03":
		c03Instances(add, thorough)
	case "C15":
		c15Instances(add, thorough)
	case "SELF":
		selfInstances(add)
	}
	return out
}

func c01Instances(add func(*Instance), thorough bool, inv int) {
	// layer 1: container binops over kind/shape pairings.
	// "free" group: every element/interval end point is an unconstrained 16-bit value.
	// "anchored" group: values confined to 8-wide windows at fixed anchors, so that bitmap-chunk word indices stay few.
	free := []shape{{kA, 1}, {kA, 2}, {kR, 1}, {kR, 2}}
	anch := []shape{{kA, 21}, {kA, 22}, {kR, 24}, {kR, 26}, {kB, 0}}
	if thorough {
		free = []shape{{kA, 1}, {kA, 2}, {kA, 3}, {kR, 1}, {kR, 2}, {kR, 11}, {kR, 12}}
		anch = []shape{{kA, 21}, {kA, 22}, {kA, 23}, {kR, 24}, {kR, 25}, {kR, 26}, {kR, 27}, {kR, 23}, {kB, 0}, {kB, 1}, {kB, 2}}
	}
	ops := []int{0, 1, 2, 3, 4, 5, 6, 7, 8, 9, 10, 11, 12, 13}
	for _, op := range ops {
		if inv == 1 && op >= 10 {
			continue
		}
		for gi, grp := range [][]shape{free, anch} {
			for _, a := range grp {
				for _, b := range grp {
					if gi == 0 && (a.k == kR || b.k == kR) {
						// kernels that go through bitmap conversions are intractable with unconstrained run positions;
						// those (op, kind, kind) triples are covered by the anchored group only
						if op == 2 || op == 6 || ((op == 3) && a.k != b.k) || (op == 7 && a.k == kR && b.k == kA) {
							continue
						}
					}
					heavy := a.k == kR && b.k == kR && (a.s%10 >= 2 && b.s%10 >= 2) && gi == 0
					if gi == 0 && a.k == kR && b.k == kR && a.s != b.s && (op == 5 || op == 9) {
						heavy = true
					}
					if gi == 1 && op == 7 && a.k == kR && b.k == kA {
						heavy = true
					}
					if gi == 1 && a.k == kR && b.k == kR && a.s != b.s && (op == 2 || op == 6) {
						heavy = true
					}
					in := &Instance{Func: "VerifC01ContainerBinop", Params: P("op", op, "ka", a.k, "sa", a.s, "kb", b.k, "sb", b.s, "L", 2, "inv", inv)}
					if heavy {
						in.Tier = 1
					}
					add(in)
				}
			}
		}
	}
	// the same container object on both sides (x.Op(x)), including arrays with spare capacity
	for _, op := range ops {
		if inv == 1 && op >= 10 {
			continue
		}
		for _, a := range []shape{{kA, 2}, {kA, 32}, {kR, 2}, {kB, 0}} {
			add(&Instance{Func: "VerifC01ContainerBinop", Params: P("op", op, "ka", a.k, "sa", a.s, "kb", -1, "sb", 0, "L", 2, "inv", inv)})
		}
	}
	// layer 3: Bitmap-level drivers (key alignment, chunk hand-over, empties) on tiny chunks
	for op := 0; op <= 3; op++ {
		a0, a1, b0, b1 := 1, 201, 1, 1 // free A(1), free R(1): and/or kernels never build bitmaps from them
		s0, s1 := 2, 201
		if op >= 2 {
			a0, a1, b0, b1 = 21, 224, 21, 21 // xor/andNot convert to bitmaps: anchored shapes
			s0, s1 = 22, 224
		}
		if op == 3 || (op == 2 && !thorough) {
			a1 = 21
		}
		for form := 0; form <= 1; form++ {
			add(&Instance{Func: "VerifC01BitmapBinop", Params: P("op", op, "form", form, "inv", inv, "L", 2,
				"ak", 2, "akeys", 2*form, "acow", 0, "ac0", a0, "ac1", a1, "bk", 2, "bkeys", 0, "bcow", 0, "bc0", b0, "bc1", b1)})
			add(&Instance{Func: "VerifC01BitmapBinop", Params: P("op", op, "form", form, "inv", inv, "L", 2,
				"ak", 1, "akeys", 0, "acow", 1, "ac0", a0, "bk", 2, "bkeys", 0, "bcow", 1, "bc0", b0, "bc1", b1)})
			add(&Instance{Func: "VerifC01BitmapBinop", Tier: inv, Params: P("op", op, "form", form, "inv", inv, "L", 2,
				"ak", 3, "akeys", 0, "acow", 0, "ac0", a0, "ac1", a1, "ac2", a0, "bk", 2, "bkeys", 2, "bcow", 0, "bc0", b0, "bc1", b1)})
			add(&Instance{Func: "VerifC01BitmapBinop", Tier: inv, Params: P("op", op, "form", form, "inv", inv, "L", 2,
				"ak", 2, "akeys", 0, "acow", 0, "ac0", b0, "ac1", b1, "bk", 3, "bkeys", 0, "bcow", 0, "bc0", a0, "bc1", b0, "bc2", a0)})
			add(&Instance{Func: "VerifC01BitmapBinop", Tier: 1, Params: P("op", op, "form", form, "inv", inv, "L", 2,
				"ak", 2, "akeys", 0, "acow", 0, "ac0", 100, "ac1", 21, "bk", 2, "bkeys", 0, "bcow", 0, "bc0", 21, "bc1", 100)})
		}
		for form := 2; form <= 3; form++ {
			add(&Instance{Func: "VerifC01BitmapBinop", Params: P("op", op, "form", form, "inv", inv, "L", 2,
				"ak", 2, "akeys", 0, "acow", 1, "ac0", s0, "ac1", s1)})
			add(&Instance{Func: "VerifC01BitmapBinop", Params: P("op", op, "form", form, "inv", inv, "L", 2,
				"ak", 1, "akeys", 0, "acow", 0, "ac0", 32)})
		}
	}
	if inv == 0 {
		add(&Instance{Func: "VerifC01BitmapBinop", Params: P("op", 0, "form", 4, "inv", 0, "L", 2,
			"ak", 2, "akeys", 0, "acow", 0, "ac0", 1, "ac1", 201, "bk", 2, "bkeys", 0, "bcow", 0, "bc0", 1, "bc1", 1)})
		add(&Instance{Func: "VerifC01BitmapBinop", Params: P("op", 0, "form", 4, "inv", 0, "L", 2,
			"ak", 2, "akeys", 0, "acow", 0, "ac0", 21, "ac1", 100, "bk", 2, "bkeys", 0, "bcow", 0, "bc0", 224, "bc1", 21)})
	}
	if inv == 0 {
		// shortcuts (AndCardinality, OrCardinality, Intersects, ...) with 2 x 3 and 3 x 2 free keys: cursors that get out of step
		for _, kk := range [][2]int{{2, 3}, {3, 2}} {
			add(&Instance{Func: "VerifC01BitmapBinop", Params: P("op", 0, "form", 4, "inv", 0, "L", 2,
				"ak", kk[0], "akeys", 0, "acow", 0, "ac0", 1, "ac1", 1, "ac2", 1, "bk", kk[1], "bkeys", 0, "bcow", 0, "bc0", 1, "bc1", 1, "bc2", 1)})
		}
	}
	if inv == 0 {
		// layer 2: sorted-array kernels
		for k := 0; k <= 5; k++ {
			for _, nm := range [][2]int{{0, 2}, {2, 0}, {1, 1}, {2, 2}, {3, 2}, {2, 3}, {3, 3}} {
				add(&Instance{Func: "VerifC01Kernels", Params: P("k", k, "n", nm[0], "m", nm[1])})
			}
			add(&Instance{Func: "VerifC01Kernels", Params: P("k", k, "n", 4, "m", 4), Tier: 1})
		}
		add(&Instance{Func: "VerifC01Kernels", Params: P("k", 6, "n", 1, "m", 3)})
		add(&Instance{Func: "VerifC01Kernels", Params: P("k", 6, "n", 2, "m", 5)})
		add(&Instance{Func: "VerifC01Kernels", Params: P("k", 7, "n", 1, "m", 0)})
		add(&Instance{Func: "VerifC01Kernels", Params: P("k", 7, "n", 3, "m", 0)})
		add(&Instance{Func: "VerifC01Kernels", Params: P("k", 7, "n", 5, "m", 0)})
	}
}

// bitmap generator parameter sets used by the query properties: name -> params (prefix a)
type bmShape struct {
	name string
	p    map[string]int
	xb   int // argument window base (used with xm) for shapes that contain bitmap chunks
	xm   int
	tier int
}

func queryBitmaps(thorough bool) []bmShape {
	out := []bmShape{
		{"empty", P("ak", 0, "akeys", 0, "acow", 0), 0, -1, 0},
		{"A1", P("ak", 1, "akeys", 0, "acow", 0, "ac0", 1), 0, -1, 0},
		{"A2,R1", P("ak", 2, "akeys", 0, "acow", 0, "ac0", 2, "ac1", 201), 0, -1, 0},
		{"R2@0xFFFF", P("ak", 1, "akeys", 2, "acow", 0, "ac0", 202), 0, -1, 0},
		{"Rfull,A1 adjacent", P("ak", 2, "akeys", 3, "acow", 0, "ac0", 220, "ac1", 1), 0, -1, 0},
		{"A1,Rfull adjacent", P("ak", 2, "akeys", 3, "acow", 0, "ac0", 1, "ac1", 220), 0, -1, 0},
		{"B0@key1 win", P("ak", 2, "akeys", 4, "acow", 0, "ac0", 1, "ac1", 100), 65536 + 4150, 15, 0},
		{"B3@key0 win-lo", P("ak", 2, "akeys", 4, "acow", 0, "ac0", 103, "ac1", 1), 56, 15, 0},
		// two windows instead of one across the chunk edge: with the chunk key fixed, the word index of the argument is a constant
		// (a downward / upward scan through ~1000 full words with a symbolic-but-unique word index costs two solver calls per word)
		{"B3@key0 win-hi", P("ak", 2, "akeys", 4, "acow", 0, "ac0", 103, "ac1", 1), 65528, 7, 0},
		{"B3@key0 win-next-chunk", P("ak", 2, "akeys", 4, "acow", 0, "ac0", 103, "ac1", 1), 65536, 7, 0},
		{"A3,A1,R1", P("ak", 3, "akeys", 0, "acow", 0, "ac0", 3, "ac1", 1, "ac2", 201), 0, -1, 1},
		{"Rfull,Rfull,A2 adjacent", P("ak", 3, "akeys", 3, "acow", 0, "ac0", 220, "ac1", 220, "ac2", 2), 0, -1, 1},
		{"B1@key1 win", P("ak", 2, "akeys", 4, "acow", 0, "ac0", 2, "ac1", 101), 65536 + 4150, 31, 1},
		{"A*70", P("ak", 1, "akeys", 0, "acow", 0, "ac0", 11), 0, -1, 1},
	}
	return out
}

func c03Instances(add func(*Instance), thorough bool) {
	for _, b := range queryBitmaps(thorough) {
		for q := 0; q <= 8; q++ {
			if q == 6 {
				continue
			}
			if q == 7 && (b.xm >= 0 || strings.Contains(b.name, "Rfull")) {
				continue // ToArray walks every member: bitmap-chunk shapes are covered by C04's windowed walks
			}
			if q == 5 && b.name == "A*70" {
				continue // two free 33-bit range ends against a 70-element backbone: undecided after 40 min (1700 paths); rank/select cover the backbone
			}
			tier := b.tier
			if q == 5 && b.xm >= 0 {
				tier = 1 // IntersectsWithInterval walks the words of a bitmap chunk: slow, thorough only
			}
			add(&Instance{Func: "VerifC03Query", Tier: tier, Note: b.name, Params: with(b.p, "q", q, "L", 2, "xb", b.xb, "xm", b.xm)})
		}
	}
	// Equals on independent descriptions
	eq := [][2]map[string]int{
		{P("ak", 1, "akeys", 0, "acow", 0, "ac0", 2), P("bk", 1, "bkeys", 0, "bcow", 0, "bc0", 201)},
		{P("ak", 2, "akeys", 0, "acow", 0, "ac0", 1, "ac1", 1), P("bk", 2, "bkeys", 0, "bcow", 0, "bc0", 1, "bc1", 201)},
		{P("ak", 1, "akeys", 0, "acow", 0, "ac0", 1), P("bk", 2, "bkeys", 0, "bcow", 0, "bc0", 1, "bc1", 1)},
	}
	for _, e := range eq {
		m := with(e[0], "q", 6, "L", 2, "xb", 0, "xm", -1)
		for k, v := range e[1] {
			m[k] = v
		}
		add(&Instance{Func: "VerifC03Query", Params: m})
	}
}

func c15Instances(add func(*Instance), thorough bool) {
	for _, b := range queryBitmaps(thorough) {
		for q := 0; q <= 3; q++ {
			add(&Instance{Func: "VerifC15Neighbour", Tier: b.tier, Note: b.name, Params: with(b.p, "q", q, "L", 2, "xb", b.xb, "xm", b.xm)})
		}
	}
	type cs struct{ k, s, xb, xm, tier int }
	for _, c := range []cs{{kA, 1, 0, -1, 0}, {kA, 2, 0, -1, 0}, {kA, 3, 0, -1, 0}, {kA, 4, 0, -1, 1}, {kA, 11, 0, -1, 1},
		{kR, 1, 0, -1, 0}, {kR, 2, 0, -1, 0}, {kR, 12, 0, -1, 0}, {kR, 20, 0, -1, 0}, {kR, 3, 0, -1, 1},
		{kB, 0, 4150, 15, 0}, {kB, 3, 56, 15, 0}, {kB, 3, 65520, 15, 0}, {kB, 4, 310, 31, 0}, {kB, 1, 4150, 31, 1}} {
		for q := 0; q <= 3; q++ {
			add(&Instance{Func: "VerifC15Container", Tier: c.tier, Params: P("q", q, "k", c.k, "s", c.s, "xb", c.xb, "xm", c.xm, "L", 2)})
		}
	}
}

func c02Instances(add func(*Instance), thorough bool, inv int) {
	base := P("L", 2, "inv", inv, "n", 2, "xb", 0, "xm", -1, "sb", 0, "sm", 0, "eb", 0, "em", 0, "len", 0)
	small := P("ak", 2, "akeys", 0, "acow", 0, "ac0", 2, "ac1", 201)
	smallCow := P("ak", 2, "akeys", 0, "acow", 1, "ac0", 1, "ac1", 201)
	single := P("ak", 2, "akeys", 2, "acow", 0, "ac0", 1, "ac1", 1) // single-value chunks: removal deletes the chunk; last key 0xFFFF
	// point mutators
	for _, m := range []int{0, 1, 2, 3, 4} {
		for _, sh := range []map[string]int{small, smallCow, single} {
			if m == 2 && len(sh) != len(small) {
				continue
			}
			pp := with(base, "m", m)
			for k, v := range sh {
				pp[k] = v
			}
			add(&Instance{Func: "VerifC02Step", Params: pp})
		}
		if m == 2 {
			continue
		}
		// conversion edges (argument confined to a window)
		type edge struct {
			name   string
			p      map[string]int
			xb, xm int
			tier   int
		}
		edges := []edge{
			{"A*(4096;2): 4097th insert", P("ak", 1, "akeys", 0, "acow", 0, "ac0", 13), 30720, 31, 0},
			{"A*(4095;2)", P("ak", 1, "akeys", 0, "acow", 0, "ac0", 12), 32752, 31, 1},
			{"B(thr): 4097 -> 4096", P("ak", 2, "akeys", 4, "acow", 0, "ac0", 102, "ac1", 1), 120, 15, 0},
			{"B(hi): one short of full", P("ak", 1, "akeys", 4, "acow", 0, "ac0", 103), 65528, 7, 0},
			{"Rfull", P("ak", 2, "akeys", 3, "acow", 0, "ac0", 220, "ac1", 1), 0, -1, 0},
			{"R(2) free lengths", P("ak", 1, "akeys", 0, "acow", 0, "ac0", 212), 0, -1, 1},
			{"R(1) free length", P("ak", 1, "akeys", 0, "acow", 0, "ac0", 211), 0, -1, 0},
			{"B(lo) cow", P("ak", 2, "akeys", 4, "acow", 1, "ac0", 100, "ac1", 1), 4150, 15, 1},
		}
		for _, e := range edges {
			pp := with(base, "m", m, "xb", e.xb, "xm", e.xm)
			for k, v := range e.p {
				pp[k] = v
			}
			add(&Instance{Func: "VerifC02Step", Params: pp, Tier: e.tier, Note: e.name})
		}
	}
	// AddMany
	for _, n := range []int{1, 2, 3} {
		pp := with(base, "m", 5, "n", n)
		for k, v := range small {
			pp[k] = v
		}
		in := &Instance{Func: "VerifC02Step", Params: pp}
		if n == 3 {
			in.Tier = 1
		}
		add(in)
	}
	add(&Instance{Func: "VerifC02Step", Params: with(base, "m", 5, "n", 2, "xb", 30720, "xm", 31, "ak", 1, "akeys", 0, "acow", 0, "ac0", 13), Note: "AddMany across the 4096 edge"})
	// range mutators
	three := P("ak", 3, "akeys", 4, "acow", 0, "ac0", 2, "ac1", 201, "ac2", 1)
	two := P("ak", 2, "akeys", 4, "acow", 0, "ac0", 2, "ac1", 201)
	top := P("ak", 2, "akeys", 2, "acow", 0, "ac0", 1, "ac1", 2)
	bmp := P("ak", 2, "akeys", 4, "acow", 0, "ac0", 1, "ac1", 100)
	full := P("ak", 2, "akeys", 4, "acow", 0, "ac0", 220, "ac1", 1)
	for _, m := range []int{6, 7, 8} {
		ln := 7
		if m == 8 {
			ln = 3
		}
		type rg struct {
			p                  map[string]int
			sb, sm, eb, em, ln int
			tier               int
		}
		topTier := 0
		if m == 8 {
			topTier = 1
		}
		rgs := []rg{
			{two, 0, 262143, 0, 0, 3, 0},          // short range anywhere in keys 0..3 (free low bits); length <= 7 below (thorough)
			{three, 65528, 15, 131064, 15, -1, 1}, // long: from the end of chunk 0 across chunk 1 into chunk 2
			{P("ak", 3, "akeys", 4, "acow", 0, "ac0", 1, "ac1", 220, "ac2", 1), 65528, 15, 131064, 15, -1, 0}, // same with tiny chunks
			{three, 0, 7, 196600, 15, -1, 1},                                                                     // covers every chunk
			{top, 4294967280, 15, 4294967288, 15, -1, topTier},                                                   // up to 2^32
			{top, 4294901752, 15, 4294967288, 15, -1, 1},                                                         // whole last chunk region, e up to 2^32
			{bmp, 65536 + 4150, 15, 65536 + 4200, 15, -1, 0},                                                     // inside a bitmap chunk, word edges
			{bmp, 65536 + 60, 7, 65536 + 65528, 7, -1, 1},                                                        // almost the whole bitmap chunk (-> full / empty)
			{full, 100, 7, 65530, 7, -1, 0},                                                                      // inside a full run chunk
			{P("ak", 1, "akeys", 4, "acow", 1, "ac0", 212), 0, 65535, 0, 0, ln, 1},                               // free run lengths, cow
			{P("ak", 1, "akeys", 4, "acow", 1, "ac0", 202), 0, 65535, 0, 0, 3, map[int]int{6: 1, 7: 0, 8: 1}[m]}, // two short runs, cow (AddRange/Flip: > 4 min since minimizeRunContainer joined the range paths)
			{P("ak", 1, "akeys", 4, "acow", 1, "ac0", 201), 0, 65535, 0, 0, 3, 0},                                // one short run, cow
			{two, 0, 262143, 0, 0, 7, 1},
			{P("ak", 1, "akeys", 4, "acow", 0, "ac0", 13), 30720, 31, 30800, 31, -1, 1}, // range on a 4096-element array
			{P("ak", 3, "akeys", 4, "acow", 1, "ac0", 1, "ac1", 1, "ac2", 1), 0, 7, 131064, 15, -1, map[int]int{6: 1, 7: 0, 8: 1}[m]}, // RemoveRange drops two whole leading chunks, the third (shared) chunk survives
		}
		for _, r := range rgs {
			pp := with(base, "m", m, "sb", r.sb, "sm", r.sm, "eb", r.eb, "em", r.em, "len", r.ln)
			for k, v := range r.p {
				pp[k] = v
			}
			add(&Instance{Func: "VerifC02Step", Params: pp, Tier: r.tier})
		}
	}
	// content-neutral maintenance calls
	for _, m := range []int{9, 10, 11, 12, 13} {
		for _, sh := range []map[string]int{smallCow, P("ak", 2, "akeys", 4, "acow", 1, "ac0", 212, "ac1", 3), P("ak", 1, "akeys", 4, "acow", 0, "ac0", 100)} {
			pp := with(base, "m", m)
			for k, v := range sh {
				pp[k] = v
			}
			add(&Instance{Func: "VerifC02Step", Params: pp})
		}
	}
}

// C09: invariant-only mode (inv=1) of the C01/C02 harness families, with pre-states satisfying the FULL invariant
// (eff=1: generated run chunks are efficient, as Validate requires), plus the I => Validate()==nil bridge.
func c09Instances(add func(*Instance), thorough bool) {
	wrap := func(in *Instance) {
		in.Params = with(in.Params, "eff", 1, "L", 7)
		pr := in.Params
		if in.Func == "VerifC01ContainerBinop" && pr["ka"] == kR && pr["kb"] == kR && pr["sa"] != pr["sb"] && (pr["op"] == 5 || pr["op"] == 9) {
			in.Tier = 1 // in-place run unions with lengths up to 8: thousands of paths
		}
		add(in)
	}
	c01Instances(wrap, thorough, 1)
	c02Instances(wrap, thorough, 1)
	c11Instances(wrap, thorough, 1)
	// union of two run chunks with two runs each (short runs: the union can be inefficient as a run chunk)
	for _, op := range []int{1, 8} { // or, lazyOR + repair (the in-place forms add value by value: thousands of paths, thorough tier)
		add(&Instance{Func: "VerifC01ContainerBinop", Params: P("op", op, "ka", kR, "sa", 2, "kb", kR, "sb", 2, "L", 4, "inv", 1, "eff", 1)})
	}
	// ParOr / ParHeapOr of an array chunk with a short run chunk at the same key (the lazy merge promotes to a bitmap chunk,
	// the repair step has to bring it back)
	for _, g := range []int{5, 7} {
		add(&Instance{Func: "VerifC11Aggregate", Params: P("L", 7, "eff", 1, "inv", 1, "g", g, "lst", 12, "w", 1, "xb", 56, "xm", 15,
			"ak", 2, "akeys", 4, "ac0", 21, "ac1", 21, "bk", 2, "bkeys", 4, "bc0", 224, "bc1", 21, "ck", 1, "ckeys", 4, "cc0", 21), Tier: 1}) // 2.5 min each
	}
	// quick: ParHeapOr on one shared chunk (it has no FastOr fallback)
	add(&Instance{Func: "VerifC11Aggregate", Params: P("L", 7, "eff", 1, "inv", 1, "g", 7, "lst", 12, "w", 1, "xb", 56, "xm", 15,
		"ak", 1, "akeys", 4, "ac0", 21, "bk", 1, "bkeys", 4, "bc0", 224, "ck", 1, "ckeys", 4, "cc0", 21)})
	// two bitmap chunks whose intersection holds 4094..4098 values (the free bits decide the side of 4096)
	for _, op := range []int{0, 4} {
		add(&Instance{Func: "VerifC01ContainerBinop", Params: P("op", op, "ka", kB, "sa", 2, "kb", kB, "sb", 2, "L", 7, "inv", 1, "eff", 1)})
	}
	// whole-bitmap transforms: static Flip inside / across short runs, AddOffset64 splitting run, array and bitmap chunks
	flipBase := P("L", 7, "eff", 1, "inv", 1, "xb", 0, "xm", -1)
	add(&Instance{Func: "VerifC16Flip", Params: with(flipBase, "ak", 2, "akeys", 4, "ac0", 224, "ac1", 21, "sb", 56, "sm", 15, "eb", 60, "em", 15, "len", -1)})
	add(&Instance{Func: "VerifC16Flip", Params: with(flipBase, "ak", 1, "akeys", 4, "ac0", 201, "sb", 0, "sm", 65535, "len", 3)})
	add(&Instance{Func: "VerifC16Flip", Params: with(flipBase, "ak", 2, "akeys", 4, "acow", 1, "ac0", 2, "ac1", 1, "sb", 0, "sm", 262143, "len", 3)})
	offBase := P("L", 7, "eff", 1, "inv", 1, "u", 0, "xb", 0, "xm", -1)
	for _, o := range [][2]int{{65530, 15}, {-8, 15}, {65536, 0}} {
		add(&Instance{Func: "VerifC16Offset", Params: with(offBase, "ak", 2, "akeys", 0, "acow", 1, "ac0", 2, "ac1", 201, "off", o[0], "offm", o[1])})
		add(&Instance{Func: "VerifC16Offset", Params: with(offBase, "ak", 1, "akeys", 4, "ac0", 224, "off", o[0], "offm", o[1])})
	}
	for _, o := range [][2]int{{1, 0}, {63, 3}, {4095, 1}, {65535, 0}, {61376, 0}} {
		add(&Instance{Func: "VerifC16Offset", Params: with(offBase, "ak", 2, "akeys", 4, "ac0", 100, "ac1", 21, "off", o[0], "offm", o[1])})
	}
	add(&Instance{Func: "VerifC16Offset", Params: with(offBase, "ak", 2, "akeys", 3, "ac0", 220, "ac1", 1, "off", 65530, "offm", 15)})
}

func c14Instances(add func(*Instance), thorough bool) {
	const sv = "cvc5,cvc5-int,z3-new" // linear arithmetic over symbolic cardinalities: the integer encoding decides what bit-blasting stalls on
	pow := func(n int) int {
		p := 1
		for i := 0; i < n; i++ {
			p *= 3
		}
		return p
	}
	maxN := 8
	if thorough {
		maxN = 12 // n = 15 with all-run chunks was undecided after 6 minutes in one of two runs
	}
	for n := 0; n <= maxN; n++ {
		// kind patterns: all arrays, all bitmaps, all runs, alternating, one run first / last
		pats := map[int]bool{0: true, (pow(n) - 1) / 2: true, pow(n) - 1: true}
		alt, k := 0, 1
		for i := 0; i < n; i++ {
			alt += (i % 3) * k
			k *= 3
		}
		pats[alt] = true
		if n > 0 {
			pats[2] = true
			pats[2*pow(n-1)] = true
			pats[1] = true
		}
		for p := range pats {
			tier := 0
			if n > 8 {
				tier = 1
			}
			// one linear-arithmetic obligation per instance: give it a generous per-query budget (a loaded machine needs > 15 s)
			add(&Instance{Func: "VerifC14Bound", Params: P("n", n, "kinds", p), Solvers: sv, Tier: tier, QueryTimeoutMs: 120000})
		}
	}
	// short histories on real bitmaps satisfying I
	shapes := []map[string]int{
		P("ak", 2, "akeys", 0, "acow", 0, "ac0", 2, "ac1", 201),
		P("ak", 1, "akeys", 4, "acow", 0, "ac0", 202),
		P("ak", 3, "akeys", 4, "acow", 0, "ac0", 1, "ac1", 220, "ac2", 1),
	}
	for _, sh := range shapes {
		for m := 0; m <= 8; m++ { // (m=9, in-place AndNot with a range bitmap, converts free run positions through bitmaps: undecided)
			for opt := 0; opt <= 1; opt++ {
				ln := 3
				if m == 5 {
					ln = 2
				}
				if m >= 8 {
					ln = 7
				}
				if m >= 6 && opt == 1 {
					continue
				}
				tier := 0
				if m == 5 && sh["ac0"] == 202 {
					tier = 1 // Flip over two free runs: > 4 min
				}
				pp := with(sh, "m", m, "opt", opt, "eff", 1, "L", 7, "xb", 0, "xm", -1, "sb", 0, "sm", 262143, "len", ln)
				add(&Instance{Func: "VerifC14Step", Params: pp, Solvers: sv, Tier: tier})
				if m >= 3 && m != 5 {
					add(&Instance{Func: "VerifC14Step", Params: with(pp, "len", 7), Solvers: sv, Tier: 1})
				}
			}
		}
	}
}

func c04Instances(add func(*Instance), thorough bool) {
	type sh struct {
		p    map[string]int
		tier int
	}
	walk := []sh{
		{P("ak", 2, "akeys", 3, "acow", 0, "ac0", 2, "ac1", 201), 0},
		{P("ak", 1, "akeys", 0, "acow", 0, "ac0", 3), 0},
		{P("ak", 1, "akeys", 2, "acow", 0, "ac0", 202), 0},
		{P("ak", 2, "akeys", 4, "acow", 0, "ac0", 107, "ac1", 1), 0},
		{P("ak", 2, "akeys", 3, "acow", 0, "ac0", 226, "ac1", 2), 0},
		{P("ak", 0, "akeys", 0, "acow", 0), 0},
		{P("ak", 3, "akeys", 0, "acow", 0, "ac0", 2, "ac1", 108, "ac2", 201), 1},
		{P("ak", 2, "akeys", 3, "acow", 0, "ac0", 3, "ac1", 3), 1},
	}
	for _, b := range walk {
		for w := 0; w <= 6; w++ {
			tier := b.tier
			if w >= 5 && b.p["ac0"] == 226 {
				tier = 1 // NextMany over a run of up to 24 values x buffer-length choices: thousands of paths
			}
			add(&Instance{Func: "VerifC04Walk", Tier: tier, Params: with(b.p, "w", w, "stop", -1, "L", 2)})
		}
		for _, w := range []int{2, 3, 4} {
			for _, stop := range []int{0, 1, 2, 3} {
				add(&Instance{Func: "VerifC04Walk", Tier: b.tier, Params: with(b.p, "w", w, "stop", stop, "L", 2)})
			}
		}
		for _, stop := range []int{-1, 1, 2} {
			add(&Instance{Func: "VerifC04Ranges", Tier: b.tier, Params: with(b.p, "stop", stop, "L", 2)})
		}
	}
	add(&Instance{Func: "VerifC04Ranges", Params: P("stop", -1, "L", 2, "ak", 3, "akeys", 3, "acow", 0, "ac0", 220, "ac1", 220, "ac2", 2)})
	add(&Instance{Func: "VerifC04Ranges", Params: P("stop", -1, "L", 2, "ak", 2, "akeys", 4, "acow", 0, "ac0", 100, "ac1", 227)})
	// protocol strings
	steps := 3
	if thorough {
		steps = 4
	}
	for _, b := range []struct {
		p      map[string]int
		xb, xm int
	}{
		{P("ak", 2, "akeys", 3, "acow", 0, "ac0", 2, "ac1", 201), 0, -1},
		{P("ak", 1, "akeys", 0, "acow", 0, "ac0", 202), 0, -1},
		{P("ak", 2, "akeys", 4, "acow", 0, "ac0", 1, "ac1", 100), 65536 + 4150, 15},
		{P("ak", 2, "akeys", 3, "acow", 0, "ac0", 220, "ac1", 1), 0, -1},
		{P("ak", 1, "akeys", 2, "acow", 0, "ac0", 226), 0, -1},
		{P("ak", 2, "akeys", 4, "acow", 0, "ac0", 201, "ac1", 201), 0, 131071}, // two run chunks (the iterator re-uses its embedded run iterator)
	} {
		add(&Instance{Func: "VerifC04Protocol", Params: with(b.p, "steps", steps, "L", 2, "xb", b.xb, "xm", b.xm)})
		add(&Instance{Func: "VerifC04Protocol", Params: with(b.p, "steps", 2, "L", 2, "xb", b.xb, "xm", b.xm)})
	}
	// unset iteration over windows of width <= 6
	for _, b := range []struct {
		p      map[string]int
		sb, sm int
	}{
		{P("ak", 2, "akeys", 4, "acow", 0, "ac0", 2, "ac1", 201), 0, 262143},
		{P("ak", 1, "akeys", 4, "acow", 0, "ac0", 202), 0, 65535},
		{P("ak", 2, "akeys", 4, "acow", 0, "ac0", 1, "ac1", 100), 65536 + 4150, 15},
		{P("ak", 2, "akeys", 4, "acow", 0, "ac0", 1, "ac1", 100), 65536 + 120, 15}, // inside the set block of a bitmap chunk, across a word edge
		{P("ak", 2, "akeys", 4, "acow", 0, "ac0", 107, "ac1", 1), 56, 15},
		{P("ak", 1, "akeys", 2, "acow", 0, "ac0", 226), 4294967280, 15},
		{P("ak", 2, "akeys", 3, "acow", 0, "ac0", 220, "ac1", 2), 0, 262143},
	} {
		for u := 0; u <= 2; u++ {
			wd := 4
			if thorough {
				wd = 6
			}
			add(&Instance{Func: "VerifC04Unset", Params: with(b.p, "u", u, "L", 2, "sb", b.sb, "sm", b.sm, "wd", wd)})
		}
	}
}

// bitmaps used by the serialization properties (eff=1: they satisfy the full invariant so that Validate can be asserted)
func serialShapes(thorough bool) []bmShape {
	out := []bmShape{
		{"empty", P("ak", 0), 0, 0, 0},
		{"A2", P("ak", 1, "akeys", 0, "ac0", 2), 0, 0, 0},
		{"R1", P("ak", 1, "akeys", 0, "ac0", 201), 0, 0, 0},
		{"A2,R1", P("ak", 2, "akeys", 0, "ac0", 2, "ac1", 201), 0, 0, 0},
		{"A1,R1,A2 (3 with run: no offsets)", P("ak", 3, "akeys", 0, "ac0", 1, "ac1", 201, "ac2", 2), 0, 0, 0},
		{"A1,A1,R1,A1 (4 with run: offsets)", P("ak", 4, "akeys", 0, "ac0", 1, "ac1", 1, "ac2", 201, "ac3", 1), 0, 0, 0},
		{"R1,A1,A1,A1", P("ak", 4, "akeys", 0, "ac0", 201, "ac1", 1, "ac2", 1, "ac3", 1), 0, 0, 0},
		{"A1 x4 (no run)", P("ak", 4, "akeys", 0, "ac0", 1, "ac1", 1, "ac2", 1, "ac3", 1), 0, 0, 0},
		{"A1,R1,A1,R1,A1", P("ak", 5, "akeys", 0, "ac0", 1, "ac1", 201, "ac2", 1, "ac3", 201, "ac4", 1), 0, 0, 0},
		{"8 chunks, one run (a whole byte of run flags)", P("ak", 8, "akeys", 4, "ac0", 1, "ac1", 1, "ac2", 1, "ac3", 201, "ac4", 1, "ac5", 1, "ac6", 1, "ac7", 1), 0, 0, 0},
		{"B(lo),A1", P("ak", 2, "akeys", 4, "ac0", 100, "ac1", 1), 0, 0, 0},
		{"A*(4096),A1: the largest array chunk", P("ak", 2, "akeys", 4, "ac0", 14, "ac1", 1), 0, 0, 0},
		{"B(hi) possibly full,A1: a bitmap chunk with up to 65536 values", P("ak", 2, "akeys", 4, "ac0", 103, "ac1", 1), 0, 0, 0},
		{"Rfull,A1", P("ak", 2, "akeys", 3, "ac0", 220, "ac1", 1), 0, 0, 0},
		{"R2", P("ak", 1, "akeys", 2, "ac0", 202), 0, 0, 1},
		{"A3,B(lo),R1", P("ak", 3, "akeys", 4, "ac0", 3, "ac1", 100, "ac2", 201), 0, 0, 1},
	}
	return out
}

func c05Instances(add func(*Instance), thorough bool) {
	for _, b := range serialShapes(thorough) {
		base := with(b.p, "L", 7, "eff", 1, "acow", 0, "tail", 2, "chunk", 3, "xb", 0, "xm", 262143)
		if b.p["ac0"] == 100 || b.p["ac1"] == 100 || b.p["ac0"] == 14 {
			base = with(base, "xb", 4150, "xm", 15) // the follow-up Add goes into a bitmap chunk / a 4096-element array: windowed argument
		}
		if b.p["ac0"] == 103 {
			base = with(base, "xb", 56, "xm", 15)
		}
		for rd := 0; rd <= 4; rd++ {
			add(&Instance{Func: "VerifC05RoundTrip", Tier: b.tier, Note: b.name, Params: with(base, "wr", 0, "rd", rd)})
		}
		add(&Instance{Func: "VerifC05RoundTrip", Tier: b.tier, Params: with(base, "wr", 1, "rd", 0)})
		add(&Instance{Func: "VerifC05RoundTrip", Tier: b.tier, Params: with(base, "wr", 2, "rd", 2)})
		for _, ch := range []int{1, 2, 7} {
			add(&Instance{Func: "VerifC05RoundTrip", Tier: b.tier, Params: with(base, "wr", 0, "rd", 4, "chunk", ch)})
		}
		add(&Instance{Func: "VerifC05RoundTrip", Tier: b.tier, Params: with(base, "wr", 0, "rd", 0, "reuse", 1)})
		add(&Instance{Func: "VerifC05RoundTrip", Tier: b.tier, Params: with(base, "wr", 0, "rd", 2, "reuse", 1, "tail", 0)})
		// receivers whose parallel slices have unequal capacities (grown by single Adds / cleared), every entry point
		for rd := 0; rd <= 3; rd++ {
			add(&Instance{Func: "VerifC05RoundTrip", Tier: b.tier, Params: with(base, "wr", 0, "rd", rd, "reuse", 2+rd%2)})
		}
		// the stream is exactly the buffer (no trailing bytes): the last field read ends at the end of the input
		for rd := 0; rd <= 3; rd++ {
			add(&Instance{Func: "VerifC05RoundTrip", Tier: b.tier, Params: with(base, "wr", 0, "rd", rd, "tail", 0)})
		}
		add(&Instance{Func: "VerifC05WriterFault", Tier: b.tier, Params: base})
	}
}

func c06Instances(add func(*Instance), thorough bool) {
	for _, b := range serialShapes(thorough) {
		win := P("xb", 0, "xm", -1)
		hasB := b.p["ac0"] == 100 || b.p["ac1"] == 100 || b.p["ac0"] == 14 || b.p["ac0"] == 103
		if hasB {
			win = P("xb", 4150, "xm", 15)
		}
		if b.p["ac0"] == 103 {
			win = P("xb", 56, "xm", 15)
		}
		base := with(b.p, "L", 7, "eff", 1, "acow", 0)
		for k, v := range win {
			base[k] = v
		}
		add(&Instance{Func: "VerifC06Write", Tier: b.tier, Note: b.name, Params: base})
		if b.p["ak"] == 0 {
			// the 8-byte encoding of the empty set (cookie 12346, count 0): the last field ends at the end of the input
			for rd := 0; rd <= 2; rd++ {
				add(&Instance{Func: "VerifC06Read", Params: with(base, "enc", 0, "rd", rd)})
			}
			continue
		}
		hasRun := false
		for _, k := range []string{"ac0", "ac1", "ac2", "ac3", "ac4"} {
			if v, ok := b.p[k]; ok && v/100 == 2 {
				hasRun = true
			}
		}
		for rd := 0; rd <= 2; rd++ {
			if !hasRun {
				add(&Instance{Func: "VerifC06Read", Tier: b.tier, Params: with(base, "enc", 0, "rd", rd)})
			}
			for rs := 0; rs <= 1; rs++ {
				for as := 0; as <= 1; as++ {
					if rs == 1 && !hasRun {
						continue
					}
					if hasB && as == 1 && rd != 0 {
						continue
					}
					add(&Instance{Func: "VerifC06Read", Tier: b.tier, Params: with(base, "enc", 1, "rstyle", rs, "astyle", as, "rd", rd)})
				}
			}
		}
	}
}

func c10Instances(add func(*Instance), thorough bool) {
	// 1. arbitrary byte strings of every length up to the bound, every entry point
	maxL, tail := 12, []int{14, 16}
	if thorough {
		maxL, tail = 16, []int{18, 20} // L >= 22 does not finish within the per-instance budget
	}
	for rd := 0; rd <= 5; rd++ {
		for L := 0; L <= maxL; L++ {
			add(&Instance{Func: "VerifC10Decode", Params: P("L", L, "rd", rd), CheckAlloc: true})
		}
		for _, L := range tail {
			add(&Instance{Func: "VerifC10Decode", Params: P("L", L, "rd", rd), CheckAlloc: true})
		}
	}
	// 2. proper prefixes of valid streams
	for _, b := range serialShapes(thorough) {
		if b.p["ak"] == 0 || b.p["ac0"] == 100 || b.p["ac1"] == 100 || b.p["ac0"] == 14 || b.p["ac0"] == 103 {
			continue
		}
		for rd := 0; rd <= 3; rd++ {
			add(&Instance{Func: "VerifC10Prefix", Tier: b.tier, Params: with(b.p, "L", 7, "eff", 1, "acow", 0, "rd", rd)})
		}
		// FromBase64 of the base64 text of the prefix: the last three proper prefixes (where padding appears); all
		// prefixes only for the one- and two-chunk shapes (every prefix re-encodes and re-decodes the symbolic bytes)
		pe := 3
		if b.p["ak"] <= 2 && !thorough {
			pe = 0
		}
		if b.p["ak"] <= 2 || !thorough {
			tier := b.tier
			if b.p["ak"] == 5 {
				tier = 1 // five chunks with free keys: 20 s per prefix here, several minutes on a slower machine
			}
			add(&Instance{Func: "VerifC10Prefix", Tier: tier, Params: with(b.p, "L", 7, "eff", 1, "acow", 0, "rd", 6, "pe", pe)})
		}
	}
	for _, pb := range []int{0, 8160, 8195} {
		for rd := 0; rd <= 2; rd += 2 {
			add(&Instance{Func: "VerifC10Prefix", Params: P("ak", 2, "akeys", 4, "ac0", 100, "ac1", 1, "L", 7, "eff", 1, "rd", rd, "pb", pb, "pw", 40)})
		}
	}
	// 3. V => I on unconstrained representations
	for n := 1; n <= 4; n++ {
		add(&Instance{Func: "VerifC10ValidateSound", Params: P("k", kA, "n", n)})
	}
	for n := 1; n <= 3; n++ {
		add(&Instance{Func: "VerifC10ValidateSound", Params: P("k", kR, "n", n)})
	}
	for _, pat := range []int{0, 1, 3, 5} {
		add(&Instance{Func: "VerifC10ValidateSound", Params: P("k", kB, "pat", pat)})
	}
	for n := 1; n <= 3; n++ {
		for skew := 0; skew <= 2; skew++ {
			add(&Instance{Func: "VerifC10ValidateSound", Params: P("k", 3, "n", n, "skew", skew)})
		}
	}
	// 4. MustReadFrom
	for _, L := range []int{0, 4, 8, 12, 16, 20} {
		add(&Instance{Func: "VerifC10Must", Params: P("L", L)})
	}
}

func c13Instances(add func(*Instance), thorough bool) {
	shapes := serialShapes(thorough)
	shapes = append(shapes,
		bmShape{"R1,B(lo),A1 (bitmap-run-array order)", P("ak", 3, "akeys", 4, "ac0", 201, "ac1", 100, "ac2", 1), 0, 0, 0},
		bmShape{"A1,R1,B(lo)", P("ak", 3, "akeys", 4, "ac0", 1, "ac1", 201, "ac2", 100), 0, 0, 1},
	)
	for _, b := range shapes {
		base := with(b.p, "L", 7, "eff", 1, "acow", 0, "xb", 0, "xm", 262143)
		for _, k := range []string{"ac0", "ac1", "ac2"} {
			if v := b.p[k]; v == 100 || v == 14 {
				base = with(base, "xb", (map[string]int{"ac0": 0, "ac1": 1, "ac2": 2}[k])*65536+4150, "xm", 15)
			} else if v == 103 {
				base = with(base, "xb", 56, "xm", 15)
			}
		}
		for _, slack := range []int{-1, 0, 3} {
			add(&Instance{Func: "VerifC13Frozen", Tier: b.tier, Note: b.name, Params: with(base, "slack", slack, "view", 0)})
		}
		add(&Instance{Func: "VerifC13Frozen", Tier: b.tier, Params: with(base, "slack", 0, "view", 1)})
		add(&Instance{Func: "VerifC13Frozen", Tier: b.tier, Params: with(base, "slack", -1, "view", 0, "arena", 1)})
	}
}

func c08Instances(add func(*Instance), thorough bool) {
	shapes := []map[string]int{
		P("ak", 2, "akeys", 4, "ac0", 2, "ac1", 201),
		P("ak", 2, "akeys", 4, "ac0", 1, "ac1", 1),
		P("ak", 3, "akeys", 4, "ac0", 1, "ac1", 220, "ac2", 1),
	}
	// call strings: c0[,c1] : 0 Add 1 Remove 2 AddRange 3 RemoveRange 4 Flip 5 in-place binop (bop) 8 Clone+mutate the clone
	strings := [][]int{{0}, {1}, {2}, {3}, {4}, {8}, {1, 0}, {3, 0}, {1, 1}, {8, 1}}
	if thorough {
		strings = append(strings, []int{0, 3}, []int{1, 1, 0}, []int{3, 2, 1}, []int{4, 1, 0}, []int{0, 4}, []int{2, 3})
	}
	for si, sh := range shapes {
		for ld := 0; ld <= 2; ld++ {
			for detach := 0; detach <= 1; detach++ {
				base := with(sh, "L", 7, "eff", 1, "acow", 0, "ld", ld, "detach", detach,
					"xb", 0, "xm", 262143, "sb", 0, "sm", 262143, "len", 3,
					"bk", 2, "bkeys", 4, "bcow", 0, "bc0", 2, "bc1", 1)
				for _, cs := range strings {
					if detach == 1 && (len(cs) > 1 || si > 0) {
						continue
					}
					if len(cs) > 1 && si != 1 && !thorough {
						continue // multi-step strings on the single-value-chunk shape only (quick)
					}
					pp := with(base, "steps", len(cs))
					for i, c := range cs {
						pp["c"+string(rune('0'+i))] = c
					}
					add(&Instance{Func: "VerifC08Buffer", Params: pp})
				}
				if detach == 0 {
					for bop := 0; bop <= 3; bop++ {
						if bop >= 2 && si == 0 {
							continue // xor/andNot build bitmaps from free run chunks: not here (C01 covers the kernels)
						}
						if bop == 2 && si == 2 {
							continue
						}
						if bop == 3 && si == 2 {
							// Rfull minus an array element: anchored partner element, follow-up mutation confined to the last chunk
							base = with(base, "bc1", 21, "xb", 131072, "xm", 65535)
						}
						add(&Instance{Func: "VerifC08Buffer", Params: with(base, "steps", 1, "c0", 5, "bop", bop)})
						for _, c1 := range []int{0, 1} {
							tier := 0
							if si == 0 {
								tier = 1 // A(2)/R(1;L<=8) chunks through a union and a further mutation: thousands of paths
							}
							add(&Instance{Func: "VerifC08Buffer", Tier: tier, Params: with(base, "steps", 2, "c0", 5, "c1", c1, "bop", bop)})
						}
						add(&Instance{Func: "VerifC08Buffer", Params: with(base, "steps", 2, "c0", 1, "c1", 5, "bop", bop), Tier: 1})
					}
				}
			}
		}
	}
	// in-place AndNot that empties the first aligned chunk, keeps the second and carries a receiver-only tail chunk
	// to a lower slot; then a mutation inside that (two-element, buffer-backed) tail chunk
	for ld := 0; ld <= 2; ld++ {
		for _, c1 := range []int{0, 1} {
			add(&Instance{Func: "VerifC08Buffer", Params: P("ak", 3, "akeys", 4, "ac0", 1, "ac1", 220, "ac2", 2, "L", 7, "eff", 1, "ld", ld, "detach", 0,
				"steps", 2, "c0", 5, "c1", c1, "bop", 3, "xb", 131072, "xm", 65535, "sb", 131072, "sm", 65535, "len", 3,
				"bk", 2, "bkeys", 4, "bc0", 2, "bc1", 21)})
		}
	}
	// the zero-copy bitmap as argument of an in-place Or / Xor of an ordinary bitmap (keys {0,1,2} into {1}), which is then
	// mutated inside the trailing chunk it took over
	for ld := 0; ld <= 2; ld++ {
		for _, bop := range []int{1, 2} {
			add(&Instance{Func: "VerifC08Buffer", Params: P("ak", 3, "akeys", 4, "ac0", 1, "ac1", 1, "ac2", 2, "L", 7, "eff", 1, "ld", ld, "detach", 0,
				"steps", 1, "c0", 9, "bop", bop, "xb", 131072, "xm", 65535, "bk", 1, "bkeys", 5, "bc0", 1)})
		}
	}
	// loading into a receiver that was used and cleared before (stale per-chunk flags), then mutating
	for ld := 0; ld <= 2; ld++ {
		for _, c0 := range []int{0, 1, 3} {
			add(&Instance{Func: "VerifC08Buffer", Params: P("ak", 2, "akeys", 4, "ac0", 2, "ac1", 201, "L", 7, "eff", 1, "ld", ld, "detach", 0, "reuse", 1,
				"steps", 1, "c0", c0, "xb", 0, "xm", 131071, "sb", 0, "sm", 131071, "len", 3)})
		}
		add(&Instance{Func: "VerifC08Buffer", Params: P("ak", 2, "akeys", 4, "ac0", 2, "ac1", 201, "L", 7, "eff", 1, "ld", ld, "detach", 1, "reuse", 1,
			"steps", 1, "c0", 1, "xb", 0, "xm", 131071, "sb", 0, "sm", 131071, "len", 3)})
	}
	// bitmap chunk (8 KiB payload), windowed arguments
	for ld := 0; ld <= 2; ld++ {
		for _, c0 := range []int{0, 1, 3, 5} {
			add(&Instance{Func: "VerifC08Buffer", Params: P("ak", 2, "akeys", 4, "ac0", 100, "ac1", 1, "L", 7, "eff", 1, "ld", ld, "detach", 0, "steps", 1, "c0", c0,
				"xb", 4150, "xm", 15, "sb", 4150, "sm", 15, "len", 3, "bk", 1, "bkeys", 4, "bc0", 21, "bop", 1)})
		}
	}
}

func c07Instances(add func(*Instance), thorough bool) {
	win := P("L", 7, "eff", 1, "xb", 0, "xm", 262143, "sb", 0, "sm", 262143, "len", 3, "w", 1)
	// sequential producers: symbolic keys (all alignments), symbolic copy-on-write flags and switches
	ab := with(win, "ak", 2, "akeys", 0, "acow", 1, "ac0", 1, "ac1", 1, "bk", 2, "bkeys", 0, "bcow", 1, "bc0", 1, "bc1", 1)
	for op := 0; op <= 15; op++ {
		for mut := 0; mut <= 2; mut++ {
			for _, mk := range []int{0, 1} {
				pp := with(ab, "op", op, "mut", mut, "mk", mk, "pre", 0)
				if op == 9 { // static Flip: range window
					pp = with(pp, "sb", 0, "sm", 65535, "len", 3, "akeys", 4, "bkeys", 4)
				}
				if op == 10 { // AddOffset: offsets around one chunk
					pp = with(pp, "off", 65530, "offm", 15, "akeys", 4, "bkeys", 4)
				}
				tier := 0
				if mk == 0 && mut == 2 {
					tier = 1
				}
				add(&Instance{Func: "VerifC07Op", Tier: tier, Params: pp})
			}
		}
		// input a shares all its chunks with a copy-on-write clone source a0
		for _, mut := range []int{0, 3} {
			pp := with(ab, "op", op, "mut", mut, "mk", 1, "pre", 1, "akeys", 4, "bkeys", 4)
			if op == 10 {
				pp = with(pp, "off", 65530, "offm", 15)
			}
			add(&Instance{Func: "VerifC07Op", Params: pp})
		}
	}
	// every pairing of chunk kinds under one key (full run, run, bitmap chunk against array / run receivers)
	kinds := []int{21, 220, 224, 100}
	for _, ka := range kinds {
		for _, kb := range kinds {
			if ka == 21 && kb == 21 {
				continue
			}
			for _, op := range []int{2, 6, 1, 5, 4, 8} {
				for _, mut := range []int{0, 2} {
					tier := 0
					if (ka == 100 || kb == 100) && op != 6 && op != 2 {
						tier = 1
					}
					if ka == 224 && kb == 220 && (op == 6 || op == 5) {
						continue // run.ior(full run) adds the 65536 values one by one: outside the engine's step/memory budget
					}
					if ka == 224 && kb == 21 && (op == 8 || op == 4) {
						tier = 1 // run andNot array: hundreds of paths with bitmap conversions
						if op == 8 && mut == 0 {
							continue // the in-place form followed by a mutation of the result: > 20 min, not registered in any tier
						}
					}
					pp := with(win, "ak", 1, "akeys", 4, "acow", 0, "ac0", ka, "bk", 1, "bkeys", 4, "bcow", 0, "bc0", kb, "op", op, "mut", mut, "mk", 1, "pre", 0, "xb", 56, "xm", 15)
					add(&Instance{Func: "VerifC07Op", Tier: tier, Params: pp})
				}
			}
		}
	}
	// goroutine-based producers (one deterministic schedule): anchored array chunks, interleaved concrete keys
	par := with(win, "ak", 2, "akeys", 6, "acow", 0, "ac0", 22, "ac1", 21, "bk", 2, "bkeys", 5, "bcow", 0, "bc0", 21, "bc1", 21, "xb", 56, "xm", 15)
	for _, op := range []int{16, 17, 18} {
		for _, w := range []int{1, 2} {
			for _, emp := range []int{0, 1} {
				for _, mut := range []int{0, 1} {
					if w == 2 && (emp == 1 || mut == 1) && !thorough {
						continue
					}
					add(&Instance{Func: "VerifC07Op", Params: with(par, "op", op, "w", w, "emp", emp, "mut", mut, "mk", 0, "pre", 0)})
				}
			}
		}
	}
}

// (continued from c07Instances) three distinct members / a single member
func c07MoreInstances(add func(*Instance), thorough bool) {
	win := P("L", 7, "eff", 1, "xb", 0, "xm", 262143, "sb", 0, "sm", 262143, "len", 3, "w", 1)
	// three members, the third inserting a key below and a key above the keys accumulated from the first two; then mutate
	// the result or the third member
	three := with(win, "ak", 2, "akeys", 13, "acow", 0, "ac0", 21, "ac1", 21, "bk", 2, "bkeys", 13, "bcow", 0, "bc0", 21, "bc1", 22,
		"ck", 2, "ckeys", 14, "ccow", 0, "cc0", 21, "cc1", 21, "emp", 2)
	for _, op := range []int{11, 13, 14, 16, 18} {
		for _, mut := range []int{0, 4} {
			for _, mk := range []int{0, 1} {
				// the mutation's argument lies in the third member's first chunk (key 2) resp. second chunk (key 5)
				add(&Instance{Func: "VerifC07Op", Params: with(three, "op", op, "mut", mut, "mk", mk, "pre", 0, "xb", 2*65536+56, "xm", 15)})
				add(&Instance{Func: "VerifC07Op", Params: with(three, "op", op, "mut", mut, "mk", mk, "pre", 0, "xb", 5*65536+56, "xm", 15)})
			}
		}
	}
	// ParOr whose first member shares a FULL run chunk with a copy-on-write clone; the third member has the same key
	// (the merge takes the chunk "writable"), then the result is mutated inside that chunk
	for _, op := range []int{16, 18} {
		for _, mk := range []int{0, 1} {
			add(&Instance{Func: "VerifC07Op", Params: with(win, "ak", 2, "akeys", 13, "acow", 0, "ac0", 220, "ac1", 21, "bk", 1, "bkeys", 7, "bcow", 0, "bc0", 21,
				"ck", 2, "ckeys", 13, "ccow", 0, "cc0", 21, "cc1", 21, "emp", 2, "op", op, "mut", 0, "mk", mk, "pre", 1, "xb", 4*65536+56, "xm", 15)})
		}
	}
	// ParOr / ParHeapOr whose FIRST member holds a full run or a bitmap chunk at a key the second member also has (the merge of
	// the first two members must not work in place on the first)
	for _, op := range []int{16, 18} {
		for _, c0 := range []int{220, 100} {
			add(&Instance{Func: "VerifC07Op", Params: with(win, "ak", 2, "akeys", 13, "acow", 0, "ac0", c0, "ac1", 21, "bk", 2, "bkeys", 13, "bcow", 0, "bc0", 21, "bc1", 21,
				"op", op, "mut", 0, "mk", 1, "pre", 0, "xb", 4*65536+4150, "xm", 15)})
		}
	}
	// heap aggregates with one non-empty member next to empty ones: the result is still a bitmap of its own
	for _, op := range []int{11, 13, 14, 16, 18} {
		for _, emp := range []int{4, 5} {
			add(&Instance{Func: "VerifC07Op", Params: with(win, "ak", 2, "akeys", 0, "acow", 1, "ac0", 1, "ac1", 1, "bk", 0, "emp", emp, "op", op, "mut", 0, "mk", 0, "pre", 0)})
		}
	}
	// in-place AndNot that empties the leading chunk of a copy-on-write clone and slides the tail chunks down; then the clone is
	// mutated inside a tail chunk (its source must not change)
	add(&Instance{Func: "VerifC07Op", Params: with(win, "ak", 3, "akeys", 4, "acow", 0, "ac0", 1, "ac1", 1, "ac2", 2, "bk", 1, "bkeys", 4, "bcow", 0, "bc0", 220,
		"op", 8, "mut", 1, "mk", 1, "pre", 1, "xb", 2*65536, "xm", 65535)})
	add(&Instance{Func: "VerifC07Op", Params: with(win, "ak", 3, "akeys", 4, "acow", 0, "ac0", 1, "ac1", 1, "ac2", 2, "bk", 1, "bkeys", 4, "bcow", 0, "bc0", 220,
		"op", 8, "mut", 1, "mk", 1, "pre", 1, "xb", 1*65536, "xm", 65535)})
	// AddMany as the follow-up mutation of a copy-on-write clone (and of its source)
	cowClone := with(win, "ak", 2, "akeys", 4, "acow", 1, "ac0", 2, "ac1", 1, "bk", 1, "bkeys", 4, "bcow", 0, "bc0", 1, "xb", 0, "xm", 131071)
	for _, mut := range []int{0, 1, 3} {
		add(&Instance{Func: "VerifC07Op", Params: with(cowClone, "op", 0, "mut", mut, "mk", 6, "pre", 1)})
	}
	add(&Instance{Func: "VerifC07Op", Params: with(cowClone, "op", 2, "mut", 0, "mk", 6, "pre", 1)})
	// an empty member in the list of the sequential aggregates (the caller's slice keeps its order)
	for _, op := range []int{11, 12, 13, 14} {
		add(&Instance{Func: "VerifC07Op", Params: with(win, "ak", 2, "akeys", 0, "acow", 1, "ac0", 1, "ac1", 1, "bk", 2, "bkeys", 0, "bcow", 1, "bc0", 1, "bc1", 1,
			"op", op, "mut", 0, "mk", 0, "pre", 0, "emp", 1)})
		add(&Instance{Func: "VerifC07Op", Params: with(win, "ak", 2, "akeys", 0, "acow", 0, "ac0", 1, "ac1", 1, "bk", 1, "bkeys", 0, "bcow", 0, "bc0", 1,
			"op", op, "mut", 2, "mk", 0, "pre", 0, "emp", 0)})
	}
	// a single member: the result must still be a bitmap of its own
	one := with(win, "ak", 2, "akeys", 0, "acow", 1, "ac0", 1, "ac1", 1, "bk", 0, "emp", 3)
	for _, op := range []int{11, 12, 13, 14, 16, 17, 18} {
		for _, mut := range []int{0, 1} {
			add(&Instance{Func: "VerifC07Op", Params: with(one, "op", op, "mut", mut, "mk", 0, "pre", 0)})
		}
	}
}

func c11Instances(add func(*Instance), thorough bool, inv int) {
	base := P("L", 7, "eff", 1, "xb", 0, "xm", -1, "inv", inv,
		"ak", 2, "akeys", 0, "ac0", 1, "ac1", 1, "bk", 2, "bkeys", 0, "bc0", 1, "bc1", 1, "ck", 1, "ckeys", 0, "cc0", 1)
	lists := []int{0, 1, 4, 12, 21, 11, 121, 123, 142, 44}
	if thorough {
		lists = append(lists, 1234, 321, 1213)
	}
	// sequential aggregates: symbolic keys anywhere in the key space
	for g := 0; g <= 4; g++ {
		for _, l := range lists {
			if g == 4 && l < 10 {
				continue // AndAny needs a non-empty list of filters
			}
			if inv == 1 && l != 123 && l != 142 {
				continue
			}
			add(&Instance{Func: "VerifC11Aggregate", Params: with(base, "g", g, "lst", l, "w", 1)})
			// other chunk kinds (run chunks; anchored arrays for the xor / bitmap kernels)
			if l == 12 && g != 2 {
				add(&Instance{Func: "VerifC11Aggregate", Params: with(base, "g", g, "lst", l, "w", 1, "ac1", 224, "bc0", 224, "akeys", 4, "bkeys", 4, "ckeys", 4,
					"ac0", 21, "bc1", 22, "cc0", 21, "xb", 56, "xm", 15), Tier: inv})
			}
		}
	}
	// AndAny's reusable scratch bitmap chunk: at two consecutive keys the filters' containers sum to more than 4096 values
	// (long anchored runs that may or may not reach 65535, plus an array element), the receiver holds values up to 65535
	if inv == 0 {
		for i, xb := range []int{131056, 65520, 56} {
			add(&Instance{Func: "VerifC11Aggregate", Tier: map[int]int{0: 0, 1: 1, 2: 1}[i], Params: with(base, "g", 4, "lst", 123, "w", 1,
				"ak", 2, "akeys", 4, "ac0", 21, "ac1", 226, "bk", 2, "bkeys", 4, "bc0", 221, "bc1", 221, "ck", 2, "ckeys", 4, "cc0", 21, "cc1", 21,
				"xb", xb, "xm", 15)})
		}
	}
	if inv == 0 {
		// the receiver of AndAny holds a FULL run chunk at the first of two keys that both use the scratch bitmap chunk
		for _, xb := range []int{56, 65520} {
			add(&Instance{Func: "VerifC11Aggregate", Params: with(base, "g", 4, "lst", 123, "w", 1,
				"ak", 2, "akeys", 4, "ac0", 220, "ac1", 226, "bk", 2, "bkeys", 4, "bc0", 221, "bc1", 221, "ck", 2, "ckeys", 4, "cc0", 21, "cc1", 21,
				"xb", xb, "xm", 15)})
		}
		// unions whose accumulator is an array chunk when the third member's BITMAP chunk arrives (the member must not be written)
		for _, g := range []int{0, 1, 5} {
			add(&Instance{Func: "VerifC11Aggregate", Params: with(base, "g", g, "lst", 123, "w", 1,
				"ak", 1, "akeys", 4, "ac0", 21, "bk", 1, "bkeys", 4, "bc0", 22, "ck", 1, "ckeys", 4, "cc0", 100, "xb", 4150, "xm", 15)})
		}
		// unions whose accumulator is a bitmap chunk when the third member's run chunk (possibly ending at 65535) arrives
		for _, g := range []int{0, 5, 7} {
			add(&Instance{Func: "VerifC11Aggregate", Params: with(base, "g", g, "lst", 123, "w", 1,
				"ak", 1, "akeys", 4, "ac0", 100, "bk", 1, "bkeys", 4, "bc0", 21, "ck", 1, "ckeys", 4, "cc0", 226, "xb", 65520, "xm", 15)})
		}
	}
	// AndAny: the filters' chunk cardinalities sum to more than 4096 (scratch bitmap chunk) but their union holds fewer values;
	// receiver chunk kinds: full run, array (both modes: the result chunk must have the kind its cardinality prescribes)
	for _, rc := range []int{220, 21} {
		add(&Instance{Func: "VerifC11Aggregate", Params: with(base, "g", 4, "lst", 123, "w", 1,
			"ak", 1, "akeys", 4, "ac0", rc, "bk", 1, "bkeys", 4, "bc0", 229, "ck", 1, "ckeys", 4, "cc0", 229, "xb", 56, "xm", 15)})
	}
	// goroutine-based aggregates: worker counts 0..3, keys at the top of the key space, interleaved, wide and narrow spans
	// several keys inside one work chunk, the third member inserting a key below and a key above an accumulated one
	for g := 5; g <= 7; g++ {
		for _, w := range []int{1, 2} {
			add(&Instance{Func: "VerifC11Aggregate", Params: with(base, "g", g, "lst", 123, "w", w, "akeys", 13, "bkeys", 13, "ck", 2, "ckeys", 14,
				"ac0", 21, "ac1", 21, "bc0", 21, "bc1", 22, "cc0", 21, "cc1", 21, "xb", 56, "xm", 15)})
			add(&Instance{Func: "VerifC11Aggregate", Params: with(base, "g", g, "lst", 123, "w", w, "ak", 3, "akeys", 15, "bk", 3, "bkeys", 15, "ck", 2, "ckeys", 16,
				"ac0", 21, "ac1", 21, "ac2", 21, "bc0", 21, "bc1", 22, "bc2", 21, "cc0", 21, "cc1", 21, "xb", 56, "xm", 15)})
		}
	}
	keyPats := [][2]int{{7, 8}, {4, 5}, {6, 4}, {8, 7}}
	for g := 5; g <= 7; g++ {
		for _, kp := range keyPats {
			for _, w := range []int{0, 1, 2, 3} {
				for _, l := range []int{12, 123, 142, 1, 0, 121} {
					if (w == 0 || w == 3) && l != 123 && !thorough {
						continue
					}
					if inv == 1 && (l != 123 || w > 1) {
						continue
					}
					add(&Instance{Func: "VerifC11Aggregate", Params: with(base, "g", g, "lst", l, "w", w, "akeys", kp[0], "bkeys", kp[1], "ckeys", 4,
						"ac0", 21, "ac1", 21, "bc0", 21, "bc1", 22, "cc0", 21, "xb", 56, "xm", 15)})
					if (kp[0] == 7 || kp[0] == 8) && l == 12 {
						// the same with the probe inside the last chunks (keys 65535 and 65533): values lost at the top of the key space
						for _, pk := range []int{65535, 65533} {
							add(&Instance{Func: "VerifC11Aggregate", Params: with(base, "g", g, "lst", l, "w", w, "akeys", kp[0], "bkeys", kp[1], "ckeys", 4,
								"ac0", 21, "ac1", 21, "bc0", 21, "bc1", 22, "cc0", 21, "xb", pk*65536+56, "xm", 15)})
						}
					}
				}
			}
		}
	}
}

func c16Instances(add func(*Instance), thorough bool) {
	small := P("L", 7, "eff", 1, "ak", 2, "akeys", 0, "acow", 1, "ac0", 2, "ac1", 201, "xb", 0, "xm", -1)
	top := P("L", 7, "eff", 1, "ak", 2, "akeys", 2, "acow", 0, "ac0", 1, "ac1", 2, "xb", 0, "xm", -1)
	bmp := P("L", 7, "eff", 1, "ak", 2, "akeys", 4, "acow", 0, "ac0", 100, "ac1", 21)
	// offsets: multiples of 65536 and not, negative, across 0 and 2^32
	type off struct{ off, offm, u int }
	for _, o := range []off{{65530, 15, 0}, {65536, 0, 0}, {-65540, 15, 0}, {0, 7, 1}, {65530, 15, 1}, {-8, 15, 0}, {4294901760, 65535, 0}, {-4294967295, 65535, 0}, {4294901755, 15, 1}, {131072, 0, 1}} {
		add(&Instance{Func: "VerifC16Offset", Params: with(small, "off", o.off, "offm", o.offm, "u", o.u)})
		add(&Instance{Func: "VerifC16Offset", Params: with(top, "off", o.off, "offm", o.offm, "u", o.u)})
	}
	for _, o := range []off{{1, 0, 0}, {63, 3, 0}, {65536, 0, 0}, {4095, 1, 1}, {65535, 0, 1}} {
		add(&Instance{Func: "VerifC16Offset", Params: with(bmp, "off", o.off, "offm", o.offm, "u", o.u, "xb", 4150, "xm", 255)})
	}
	add(&Instance{Func: "VerifC16Offset", Params: with(P("L", 7, "eff", 1, "ak", 2, "akeys", 3, "ac0", 220, "ac1", 1, "xb", 0, "xm", -1), "off", 65530, "offm", 15, "u", 0)})
	// static flip
	for _, r := range [][5]int{{0, 262143, 0, 0, 3}, {4294967280, 15, 4294967288, 15, -1}} {
		add(&Instance{Func: "VerifC16Flip", Params: with(P("L", 7, "eff", 1, "ak", 2, "akeys", 4, "acow", 1, "ac0", 2, "ac1", 1, "xb", 0, "xm", 262143), "sb", r[0], "sm", r[1], "eb", r[2], "em", r[3], "len", r[4])})
	}
	add(&Instance{Func: "VerifC16Flip", Tier: 1, Params: with(top, "sb", 4294967280, "sm", 15, "eb", 4294967288, "em", 15, "len", -1, "xm", 262143)})
	add(&Instance{Func: "VerifC16Flip", Params: with(P("L", 7, "eff", 1, "ak", 2, "akeys", 4, "ac0", 224, "ac1", 21), "sb", 56, "sm", 15, "eb", 70, "em", 15, "len", -1, "xb", 56, "xm", 15)})
	// dense export
	for _, sh := range []map[string]int{
		P("ak", 2, "akeys", 4, "ac0", 22, "ac1", 224, "xb", 56, "xm", 15),
		P("ak", 2, "akeys", 4, "ac0", 100, "ac1", 226, "xb", 65536, "xm", 127),
		P("ak", 1, "akeys", 4, "ac0", 226, "xb", 65500, "xm", 63),
		P("ak", 2, "akeys", 5, "ac0", 21, "ac1", 21, "xb", 65536+56, "xm", 15),
		P("ak", 0, "xb", 0, "xm", 255),
		P("ak", 2, "akeys", 4, "ac0", 220, "ac1", 227, "xb", 65530, "xm", 15),
	} {
		add(&Instance{Func: "VerifC16Dense", Params: with(sh, "L", 7, "eff", 1)})
	}
	add(&Instance{Func: "VerifC16Dense", Params: P("L", 7, "eff", 1, "sizeonly", 1, "ak", 2, "akeys", 2, "ac0", 1, "ac1", 226, "xb", 0, "xm", -1)})
	add(&Instance{Func: "VerifC16Dense", Params: P("L", 7, "eff", 1, "sizeonly", 1, "ak", 1, "akeys", 2, "ac0", 2, "xb", 0, "xm", -1)})
	// dense import: lengths not multiple of 1024, trailing partial chunk, both copy modes, function and method
	for _, n := range []int{1, 2, 1023, 1024, 1025, 2049} {
		for _, pat := range []int{0, 1} {
			for cp := 0; cp <= 1; cp++ {
				tier := 0
				if n == 2049 && pat == 0 {
					tier = 1
				}
				if n <= 2 && pat == 1 {
					continue // 64/128 set bits become a long array chunk: the follow-up point mutations fork per element
				}
				for _, xb := range []int{0, (n - 1) * 64} {
					if xb == 0 && n == 1 {
						continue
					}
					add(&Instance{Func: "VerifC16FromDense", Tier: tier, Params: P("n", n, "pat", pat, "copy", cp, "mth", (n+cp)%2, "nbits", 2, "xb", xb, "xm", 127)})
				}
			}
		}
	}
}

func c17Instances(add func(*Instance), thorough bool) {
	ad := func(pp map[string]int, tier int) {
		add(&Instance{Pkg: "roaring64", Func: "VerifC17Op", Params: pp, Tier: tier})
	}
	top := P("anb", 2, "ane", 1, "akeys", 5, "alow", 3, "alowb", 0, "bnb", 2, "bne", 1, "bkeys", 5, "blow", 3, "blowb", 0, "xh", 0xFFFFFFF0, "xb", 0, "xm", 0xF00000003)
	free := P("anb", 2, "ane", 1, "akeys", 0, "bnb", 1, "bne", 1, "bkeys", 0, "xm", -1)
	for op := 0; op <= 7; op++ {
		ad(with(top, "op", op), 0)
		ad(with(top, "op", op, "acow", 1, "bcow", 1, "ane", 2), 1)
		if op >= 4 {
			ad(with(top, "op", op, "self", 1), 0)
		}
		ad(with(free, "op", op), 1)
	}
	for op := 8; op <= 12; op++ {
		ad(with(free, "op", op), 0)
		ad(with(P("anb", 2, "ane", 1, "akeys", 2, "xm", -1), "op", op), 0)
		ad(with(P("anb", 1, "ane", 2, "akeys", 1, "xm", -1, "acow", 1), "op", op), 0)
	}
	// ranges crossing a 2^32 boundary, inside the last bucket, and creating / emptying buckets
	for op := 13; op <= 16; op++ {
		ln := 15
		if op >= 15 {
			ln = 7
		}
		ad(with(P("anb", 2, "ane", 1, "akeys", 4, "alow", 7, "alowb", 4294967288, "xh", 0, "xb", 4294967280, "xm", 63), "op", op, "sh", 0, "sb", 4294967290, "sm", 7, "len", ln), 0)
		ad(with(P("anb", 2, "ane", 1, "akeys", 2, "alow", 7, "alowb", 4294967288, "xh", 0xFFFFFFFF, "xb", 4294967264, "xm", 31), "op", op, "sh", 0xFFFFFFFF, "sb", 4294967280, "sm", 7, "len", 7), 0)
		ad(with(P("anb", 1, "ane", 2, "akeys", 4, "alow", 7, "alowb", 0, "xh", 0, "xb", 4294967280, "xm", 63), "op", op, "sh", 0, "sb", 4294967290, "sm", 7, "len", ln), 0)
		ad(with(P("anb", 2, "ane", 1, "akeys", 6, "alow", 7, "alowb", 4294967288, "xh", 0, "xb", 4294967280, "xm", 63), "op", op, "sh", 0, "sb", 4294967290, "sm", 7, "len", ln), 1)
	}
	// static Flip across two absent buckets (each becomes 65536 full chunks: large step budget, concrete work)
	add(&Instance{Pkg: "roaring64", Func: "VerifC17Op", MaxSteps: 600_000_000, Params: P("op", 16, "anb", 1, "ane", 1, "akeys", 4, "alow", 7, "alowb", 0,
		"xh", 0, "xb", 0, "xm", 12884901903, "sh", 0, "sb", 4294967290, "sm", 1, "len", 1, "eh", 3)})
	ad(with(top, "op", 17, "bnb", 1), 0)
	ad(with(P("anb", 2, "ane", 2, "akeys", 4, "alow", 7, "alowb", 0, "bnb", 1, "bne", 2, "bkeys", 4, "blow", 7, "blowb", 0, "xh", 0, "xb", 0, "xm", 0x10000000F), "op", 17), 0)
	ad(with(free, "op", 18), 0)
	ad(with(P("anb", 2, "ane", 2, "akeys", 3, "xm", -1), "op", 18), 0)
	ad(with(P("anb", 3, "ane", 1, "akeys", 2, "xm", -1), "op", 18), 1)
	for g := 0; g <= 3; g++ {
		for _, w := range []int{1, 2} {
			if g < 2 && w == 2 {
				continue
			}
			ad(with(top, "op", 19, "g", g, "w", w, "cnb", 1, "cne", 1, "ckeys", 5, "clow", 3, "clowb", 0), 0)
			ad(with(P("anb", 2, "ane", 1, "akeys", 4, "alow", 3, "bnb", 2, "bne", 1, "bkeys", 4, "blow", 3, "cnb", 1, "cne", 1, "ckeys", 4, "clow", 3, "xh", 0, "xb", 0, "xm", 0x100000003), "op", 19, "g", g, "w", w), 0)
		}
	}
	for g := 4; g <= 6; g++ {
		ad(with(free, "op", 19, "g", g, "w", 1, "cnb", 0), 0)
		ad(with(P("anb", 2, "ane", 1, "akeys", 4, "alow", 3, "bnb", 0, "cnb", 0, "xh", 0, "xb", 0, "xm", 0x100000003, "acow", 1), "op", 19, "g", g, "w", 1), 0)
	}
	ad(with(free, "op", 20, "acow", 1), 0)
	// three members whose buckets interleave inside one work chunk (third member inserts below and above accumulated buckets)
	for _, w := range []int{1, 2} {
		ad(P("op", 19, "g", 2, "w", w, "anb", 3, "ane", 1, "akeys", 7, "alow", 1, "bnb", 2, "bne", 1, "bkeys", 8, "blow", 1, "cnb", 2, "cne", 1, "ckeys", 9, "clow", 1,
			"xh", 0, "xb", 0, "xm", 0x3F00000001), 0)
	}
	// 17 consecutive buckets ending at 2^32-1 in each of three members (concrete values): chunk bounds that are rounded up past
	// the last key
	for _, w := range []int{1, 4} {
		ad(P("op", 19, "g", 2, "w", w, "anb", 17, "ane", 1, "akeys", 11, "alow", -1, "alowb", 0, "bnb", 17, "bne", 1, "bkeys", 11, "blow", -1, "blowb", 1,
			"cnb", 17, "cne", 1, "ckeys", 11, "clow", -1, "clowb", 2, "xh", 4294967295, "xb", 0, "xm", 3), 0)
	}
	// ... and the third member is mutated afterwards (its buckets must not be shared with the result)
	for _, w := range []int{1, 2} {
		ad(P("op", 19, "g", 7, "w", w, "anb", 3, "ane", 1, "akeys", 7, "alow", 1, "bnb", 2, "bne", 1, "bkeys", 8, "blow", 1, "cnb", 2, "cne", 1, "ckeys", 9, "clow", 1,
			"xh", 0, "xb", 0, "xm", 0x3F00000001), 0)
	}
	// clone + in-place AndNot cancelling the first bucket and carrying a receiver-only bucket down, then mutate the clone
	ad(P("op", 21, "anb", 2, "ane", 1, "akeys", 6, "alow", 1, "bnb", 2, "bne", 1, "bkeys", 10, "blow", 1, "xh", 0, "xb", 0, "xm", 0x700000001), 0)
	ad(P("op", 21, "anb", 3, "ane", 1, "akeys", 6, "alow", 1, "bnb", 3, "bne", 1, "bkeys", 10, "blow", 1, "xh", 0, "xb", 0, "xm", 0x700000001), 1)
}

func c18Instances(add func(*Instance), thorough bool) {
	shapes := []map[string]int{
		P("anb", 0),
		P("anb", 1, "ane", 2, "akeys", 0),
		P("anb", 2, "ane", 1, "akeys", 0),
		P("anb", 2, "ane", 2, "akeys", 2, "aopt", 1),
		P("anb", 1, "ane", 0, "akeys", 0, "afour", 1),
		P("anb", 1, "ane", 0, "akeys", 0, "afour", 8),
	}
	for _, sh := range shapes {
		for rd := 0; rd <= 2; rd++ {
			if sh["afour"] >= 1 && rd > 0 {
				continue
			}
			add(&Instance{Pkg: "roaring64", Func: "VerifC18RoundTrip", Params: with(sh, "rd", rd, "wr", rd, "tail", 2, "xm", -1)})
			add(&Instance{Pkg: "roaring64", Func: "VerifC18RoundTrip", Params: with(sh, "rd", rd, "wr", rd, "tail", 0, "xm", -1, "reuse", 1)})
			if sh["anb"] > 0 {
				add(&Instance{Pkg: "roaring64", Func: "VerifC18RoundTrip", Params: with(sh, "rd", rd, "wr", 0, "prefix", 1, "xm", -1)})
			}
		}
	}
	maxL := 12
	if thorough {
		maxL = 24
	}
	for rd := 0; rd <= 2; rd++ {
		for L := 0; L <= maxL; L += 1 {
			add(&Instance{Pkg: "roaring64", Func: "VerifC18Decode", Params: P("L", L, "rd", rd), CheckAlloc: true})
		}
		add(&Instance{Pkg: "roaring64", Func: "VerifC18Decode", Params: P("L", 20, "rd", rd), CheckAlloc: true})
		for c := 1; c <= 3; c++ {
			add(&Instance{Pkg: "roaring64", Func: "VerifC18Decode", Params: P("L", 0, "corrupt", c, "rd", rd, "anb", 2, "ane", 1, "akeys", 4, "alow", 3), CheckAlloc: true})
		}
	}
}

// BSI: both implementations (pkg roaring64 = 64-bit BSI, pkg bsi = BitSliceIndexing)
func c19Instances(add func(*Instance), thorough bool) {
	for _, pkg := range []string{"roaring64", "bsi"} {
		ad := func(pp map[string]int, tier int) {
			add(&Instance{Pkg: pkg, Func: "VerifC19Update", Params: with(pp, "cb", 5, "cm", 3), Tier: tier})
		}
		base := P("nv", 2, "w", 2)
		for _, sc := range []int{0, 2} {
			ad(with(base, "st", 0, "w2", 2, "sc", sc), 0)
			ad(with(base, "st", 0, "w2", 3, "sc", sc), 0) // forces the index to widen
			ad(with(base, "st", 0, "w2", 2, "sc", sc, "fixed", 1), 0)
		}
		ad(with(base, "st", 0, "w2", 2, "sc", 0, "w", 3), 0) // narrower overwrite
		ad(with(base, "st", 2, "w2", 2, "sc", 1), 0)
		ad(with(base, "st", 3, "sc", 0), 0)
		ad(with(base, "st", 3, "sc", 2), 0)
		ad(with(base, "st", 3, "self", 1), 0) // ClearValues(index.GetExistenceBitmap())
		ad(with(base, "st", 5), 0)
		ad(with(base, "st", 6), 0)
		ad(with(base, "st", 8, "sc", 0), 0)
		ad(with(base, "st", 8, "sc", 1, "w", 3), 0)
		for _, par := range []int{0, 1, 2} {
			ad(with(base, "st", 9, "par", par), 0)
		}
		// ParOr with arguments of different widths: wider argument, and two arguments (wide then narrow, narrow then wide)
		pb := base
		if pkg == "roaring64" {
			pb = P("nv", 1, "w", 2) // one receiver column: 256 paths instead of 1024 (each runs the goroutine fan-out of ParOr)
		}
		ad(with(pb, "st", 9, "par", 0, "w2", 4), 0)
		ad(with(pb, "st", 9, "par", 0, "w2", 4, "w3", 2), 0)
		ad(with(pb, "st", 9, "par", 1, "w2", 2, "w3", 4), 0)
		ad(with(base, "st", 10, "sc", 0), 0)
		ad(with(base, "st", 10, "sc", 2), 0)
		ad(with(base, "st", 10, "sc", 0, "w2", 3), 0)
		ad(with(base, "st", 10, "sc", 2, "w2", 4), 0)
		ad(with(P("nv", 3, "w", 2), "st", 5), 0) // third SetValue overwrites the first column
		ad(with(P("nv", 3, "w", 2), "st", 3, "sc", 0), 1)
		ad(with(P("nv", 2, "w", 3), "st", 0, "w2", 4, "sc", 1), 1)
		// symbolic column ids with concrete values
		for _, vv := range [][3]int{{-2, 1, 1}, {1, -1, -2}, {0, 0, 1}} {
			ad(P("nv", 2, "w", 2, "st", 0, "w2", 2, "symcol", 1, "vfix", 1, "v0", vv[0], "v1", vv[1], "v2", vv[2]), 0)
			ad(P("nv", 2, "w", 2, "st", 3, "symcol", 1, "vfix", 1, "v0", vv[0], "v1", vv[1]), 0)
		}
		if pkg == "bsi" {
			// negative values (64 two's-complement planes)
			ad(with(base, "st", 3, "sc", 0, "neg", 1), 0)
			ad(with(base, "st", 8, "sc", 0, "neg", 1), 0)
			ad(with(base, "st", 0, "w2", 2, "sc", 0, "neg", 1), 1)
			ad(with(base, "st", 10, "sc", 0, "neg", 1), 1)
		}
		if pkg == "roaring64" {
			ad(with(base, "st", 6, "rw", 4), 0) // UnmarshalBinary into a receiver created for a wider range
			ad(with(base, "st", 8, "sc", 0, "othneg", 1), 0) // Increment of a non-negative column while another column holds a negative value
			ad(with(base, "st", 8, "sc", 1, "othneg", 1, "w", 3), 0)
			ad(with(base, "st", 1, "w2", 3, "sc", 0), 0)
			ad(with(base, "st", 4, "sc", 0), 0)
			ad(with(base, "st", 4, "sc", 2), 0)
			ad(with(base, "st", 7), 0)
		}
	}
}

func c20Instances(add func(*Instance), thorough bool) {
	for _, pkg := range []string{"roaring64", "bsi"} {
		ad := func(pp map[string]int, tier int) {
			add(&Instance{Pkg: pkg, Func: "VerifC20Query", Params: with(pp, "cb", 5, "cm", 3), Tier: tier})
		}
		base := P("nv", 2, "w", 2, "par", 0)
		if pkg == "bsi" {
			ad(with(base, "q", 4, "fs", 0, "full", 1), 0) // BatchEqual over the whole value domain, then the result is changed
			// BitSliceIndexing with negative values (the index then uses 64 two's-complement planes)
			for cop := 1; cop <= 6; cop++ {
				tier := 0
				if cop == 2 || cop == 4 {
					tier = 1 // LE / GE: 120 paths over 64 planes
				}
				ad(with(base, "q", 0, "cop", cop, "fs", 0, "neg", 1), tier)
			}
			ad(with(base, "q", 2, "fs", 0, "neg", 1), 0)
			ad(with(base, "q", 2, "fs", 0, "neg", 1, "par", 1), 0)
			ad(with(base, "q", 2, "fs", 0, "neg", 1, "par", 2), 0)
			ad(with(base, "q", 3, "fs", 0, "neg", 1), 0)
			ad(with(base, "q", 4, "fs", 0, "neg", 1), 1)
		}
		for cop := 1; cop <= 6; cop++ {
			for _, fs := range []int{0, 1, 2} {
				tier := 0
				if fs == 1 && cop%2 == 0 {
					tier = 1
				}
				ad(with(base, "q", 0, "cop", cop, "fs", fs), tier)
			}
			ad(with(base, "q", 0, "cop", cop, "fs", 3, "nv", 3), 1)
		}
		for _, par := range []int{1, 2} {
			ad(with(base, "q", 0, "cop", 1, "fs", 0, "par", par), 0)
			ad(with(base, "q", 0, "cop", 6, "fs", 2, "par", par), 0)
		}
		for _, fs := range []int{0, 1, 2, 3} {
			ad(with(base, "q", 2, "fs", fs), 0)
			ad(with(base, "q", 3, "fs", fs), 0)
		}
		ad(with(base, "q", 2, "fs", 0, "par", 2), 0)
		ad(with(base, "q", 4, "fs", 0, "nv", 1), 0)
		ad(with(base, "q", 4, "fs", 0), 1)
		ad(with(base, "q", 4, "fs", 2), 1)
		ad(with(base, "q", 5, "fs", 0), 0)
		ad(with(base, "q", 5, "fs", 0, "w", 3), 0)
		ad(with(base, "q", 5, "fs", 0, "par", 2), 0)
		if pkg == "roaring64" {
			// the widest fixed index (65 planes): BatchEqual takes the per-column scan path instead of the plane-wise one
			ad(with(base, "q", 4, "fs", 0, "fixed", 2), 0)
			ad(with(base, "q", 4, "fs", 2, "fixed", 2), 0)
			for _, cop := range []int{1, 3, 6} {
				ad(with(base, "q", 1, "cop", cop, "fs", 0), 0)
			}
			for cop := 1; cop <= 5; cop++ {
				ad(with(base, "q", 6, "cop", cop, "fs", 0, "nv", 1, "w2", 2), 0)
				ad(with(base, "q", 6, "cop", cop, "fs", 0, "nv", 1, "w2", 3), 0)
				ad(with(base, "q", 6, "cop", cop, "fs", 0, "nv", 1, "w", 3, "w2", 2), 1)
				ad(with(base, "q", 6, "cop", cop, "fs", 0, "w2", 2), 1)
			}
		}
	}
}

// SELF: translator self-test (./check --selftest), not a property
func selfInstances(add func(*Instance)) {
	for _, w := range []int{8, 16, 32, 64} {
		for f := 0; f <= 3; f++ {
			if f == 3 && w < 64 {
				continue // OnesCount8/16/32 are table look-ups in math/bits and are not used by the library; OnesCount64 is the SWAR code
			}
			add(&Instance{Func: "VerifSelfBits", Params: P("w", w, "f", f)})
		}
	}
	add(&Instance{Func: "VerifSelfGrow", Params: P("n", 600, "k", 1)})
	add(&Instance{Func: "VerifSelfGrow", Params: P("n", 300, "k", 5)})
	add(&Instance{Func: "VerifSelfGrow", Params: P("n", 40, "k", 4100)})
	for n := 1; n <= 4; n++ {
		add(&Instance{Func: "VerifSelfSort", Params: P("n", n)})
	}
	add(&Instance{Func: "VerifSelfCast", Params: P()})
}
