package main

// Instance tables: property × tier -> harness instances (harness function × concrete parameter vector).
// Each instance is one exhaustive symbolic exploration.

import "time"

func P(kv ...interface{}) map[string]int {
	m := map[string]int{}
	for i := 0; i+1 < len(kv); i += 2 {
		m[kv[i].(string)] = kv[i+1].(int)
	}
	return m
}

func with(base map[string]int, kv ...interface{}) map[string]int {
	m := map[string]int{}
	for k, v := range base {
		m[k] = v
	}
	for i := 0; i+1 < len(kv); i += 2 {
		m[kv[i].(string)] = kv[i+1].(int)
	}
	return m
}

type shape struct{ k, s int }

const (
	kA = 0
	kB = 1
	kR = 2
)

func instancesFor(prop, tier string) []*Instance {
	thorough := tier == "thorough"
	var out []*Instance
	add := func(in *Instance) {
		in.Property = prop
		if in.Pkg == "" {
			in.Pkg = "roaring"
		}
		if in.Tier == 1 && !thorough {
			return
		}
		if in.Timeout == 0 {
			in.Timeout = 100 * time.Second
			if thorough {
				in.Timeout = 40 * time.Minute
			}
		}
		out = append(out, in)
	}
	switch prop {
	case "C01":
		c01Instances(add, thorough, 0)
	case "C09":
		c01Instances(add, thorough, 1)
	}
	return out
}

func c01Instances(add func(*Instance), thorough bool, inv int) {
	// layer 1: container binops over kind/shape pairings.
	// "free" group: every element/interval end point is an unconstrained 16-bit value.
	// "anchored" group: values confined to 8-wide windows at fixed anchors, so that bitmap-chunk word indices stay few.
	free := []shape{{kA, 1}, {kA, 2}, {kR, 1}, {kR, 2}}
	anch := []shape{{kA, 21}, {kA, 22}, {kR, 24}, {kB, 0}}
	if thorough {
		free = []shape{{kA, 1}, {kA, 2}, {kA, 3}, {kR, 1}, {kR, 2}, {kR, 11}, {kR, 12}}
		anch = []shape{{kA, 21}, {kA, 22}, {kA, 23}, {kR, 24}, {kR, 25}, {kR, 23}, {kB, 0}, {kB, 1}, {kB, 2}}
	}
	ops := []int{0, 1, 2, 3, 4, 5, 6, 7, 8, 9, 10, 11, 12, 13}
	for _, op := range ops {
		if inv == 1 && op >= 10 {
			continue
		}
		for gi, grp := range [][]shape{free, anch} {
			for _, a := range grp {
				for _, b := range grp {
					if gi == 0 && (a.k == kR || b.k == kR) {
						// kernels that go through bitmap conversions are intractable with unconstrained run positions;
						// those (op, kind, kind) triples are covered by the anchored group only
						if op == 2 || op == 6 || ((op == 3) && a.k != b.k) || (op == 7 && a.k == kR && b.k == kA) {
							continue
						}
					}
					heavy := a.k == kR && b.k == kR && (a.s%10 >= 2 && b.s%10 >= 2) && gi == 0
					if gi == 1 && op == 7 && a.k == kR && b.k == kA {
						heavy = true
					}
					in := &Instance{Func: "VerifC01ContainerBinop", Params: P("op", op, "ka", a.k, "sa", a.s, "kb", b.k, "sb", b.s, "L", 2, "inv", inv)}
					if heavy {
						in.Tier = 1
					}
					add(in)
				}
			}
		}
	}
	// layer 3: Bitmap-level drivers (key alignment, chunk hand-over, empties) on tiny chunks
	for op := 0; op <= 3; op++ {
		a0, a1, b0, b1 := 1, 201, 1, 1 // free A(1), free R(1): and/or kernels never build bitmaps from them
		s0, s1 := 2, 201
		if op >= 2 {
			a0, a1, b0, b1 = 21, 224, 21, 21 // xor/andNot convert to bitmaps: anchored shapes
			s0, s1 = 22, 224
		}
		if op == 3 {
			a1 = 21
		}
		for form := 0; form <= 1; form++ {
			add(&Instance{Func: "VerifC01BitmapBinop", Params: P("op", op, "form", form, "inv", inv, "L", 2,
				"ak", 2, "akeys", 2*form, "acow", 0, "ac0", a0, "ac1", a1, "bk", 2, "bkeys", 0, "bcow", 0, "bc0", b0, "bc1", b1)})
			add(&Instance{Func: "VerifC01BitmapBinop", Params: P("op", op, "form", form, "inv", inv, "L", 2,
				"ak", 1, "akeys", 0, "acow", 1, "ac0", a0, "bk", 2, "bkeys", 0, "bcow", 1, "bc0", b0, "bc1", b1)})
			add(&Instance{Func: "VerifC01BitmapBinop", Tier: 1, Params: P("op", op, "form", form, "inv", inv, "L", 2,
				"ak", 3, "akeys", 0, "acow", 0, "ac0", a0, "ac1", a1, "ac2", a0, "bk", 2, "bkeys", 2, "bcow", 0, "bc0", b0, "bc1", b1)})
			add(&Instance{Func: "VerifC01BitmapBinop", Tier: 1, Params: P("op", op, "form", form, "inv", inv, "L", 2,
				"ak", 2, "akeys", 0, "acow", 0, "ac0", 100, "ac1", 21, "bk", 2, "bkeys", 0, "bcow", 0, "bc0", 21, "bc1", 100)})
		}
		for form := 2; form <= 3; form++ {
			add(&Instance{Func: "VerifC01BitmapBinop", Params: P("op", op, "form", form, "inv", inv, "L", 2,
				"ak", 2, "akeys", 0, "acow", 1, "ac0", s0, "ac1", s1)})
		}
	}
	if inv == 0 {
		add(&Instance{Func: "VerifC01BitmapBinop", Params: P("op", 0, "form", 4, "inv", 0, "L", 2,
			"ak", 2, "akeys", 0, "acow", 0, "ac0", 1, "ac1", 201, "bk", 2, "bkeys", 0, "bcow", 0, "bc0", 1, "bc1", 1)})
		add(&Instance{Func: "VerifC01BitmapBinop", Params: P("op", 0, "form", 4, "inv", 0, "L", 2,
			"ak", 2, "akeys", 0, "acow", 0, "ac0", 21, "ac1", 100, "bk", 2, "bkeys", 0, "bcow", 0, "bc0", 224, "bc1", 21)})
	}
	if inv == 0 {
		// layer 2: sorted-array kernels
		for k := 0; k <= 5; k++ {
			for _, nm := range [][2]int{{0, 2}, {2, 0}, {1, 1}, {2, 2}, {3, 2}, {2, 3}, {3, 3}} {
				add(&Instance{Func: "VerifC01Kernels", Params: P("k", k, "n", nm[0], "m", nm[1])})
			}
			add(&Instance{Func: "VerifC01Kernels", Params: P("k", k, "n", 4, "m", 4), Tier: 1})
		}
		add(&Instance{Func: "VerifC01Kernels", Params: P("k", 6, "n", 1, "m", 3)})
		add(&Instance{Func: "VerifC01Kernels", Params: P("k", 6, "n", 2, "m", 5)})
		add(&Instance{Func: "VerifC01Kernels", Params: P("k", 7, "n", 1, "m", 0)})
		add(&Instance{Func: "VerifC01Kernels", Params: P("k", 7, "n", 3, "m", 0)})
		add(&Instance{Func: "VerifC01Kernels", Params: P("k", 7, "n", 5, "m", 0)})
	}
}
