package main

import (
	"fmt"
	"go/constant"
	"go/token"
	"go/types"
	"strings"
	"sync/atomic"

	"golang.org/x/tools/go/ssa"
)

var profSteps map[*ssa.Function]int

// memPressure is raised by a watchdog when the process heap exceeds its budget: running paths end as inconclusive
var memPressure atomic.Bool

func (vm *VM) constVal(c *ssa.Const) Value {
	t := c.Type()
	if c.Value == nil {
		return vm.zero(t)
	}
	switch c.Value.Kind() {
	case constant.Bool:
		return vm.ts.Bool(constant.BoolVal(c.Value))
	case constant.Int:
		if !isIntT(t) {
			unsupported("integer constant of type %s", t)
		}
		w := widthOf(t)
		if i, ok := constant.Int64Val(c.Value); ok {
			return vm.ts.BV(w, uint64(i))
		}
		u, _ := constant.Uint64Val(c.Value)
		return vm.ts.BV(w, u)
	case constant.String:
		return vm.strConst(constant.StringVal(c.Value))
	}
	unsupported("constant %s of kind %v", c, c.Value.Kind())
	return nil
}

func (vm *VM) get(fr *frame, v ssa.Value) Value {
	switch x := v.(type) {
	case *ssa.Const:
		return vm.constVal(x)
	case *ssa.Function:
		return x
	case *ssa.Global:
		return Ptr{vm.global(x), 0}
	case *ssa.Builtin:
		return x
	}
	i, ok := fr.info.idx[v]
	if !ok {
		panic(fmt.Sprintf("unbound value %s in %s", v.Name(), fr.fn))
	}
	return fr.regs[i]
}

func (vm *VM) set(fr *frame, v ssa.Value, val Value) { fr.regs[fr.info.idx[v]] = val }

func (vm *VM) global(g *ssa.Global) *Obj {
	if o, ok := vm.globals[g]; ok {
		return o
	}
	if g.Pkg != nil && !vm.inited[g.Pkg] {
		vm.initPackage(g.Pkg)
		if o, ok := vm.globals[g]; ok {
			return o
		}
	}
	et := g.Type().Underlying().(*types.Pointer).Elem()
	o := vm.newObj(sizeof(et), "global "+g.String())
	vm.globals[g] = o
	// error-typed globals of packages whose init is not run: one opaque singleton each
	if g.Pkg != nil && !initAllowed(g.Pkg.Pkg.Path()) {
		if types.Identical(et, errorType) {
			vm.store(Ptr{o, 0}, vm.opaqueError("global:"+g.String()), et)
		} else if !globalZeroOK(g) {
			unsupported("global %s of a package whose initialiser is not executed", g)
		}
	}
	return o
}

var errorType = types.Universe.Lookup("error").Type()

// opaqueError makes a fresh non-nil error value (a *errors.errorString with an empty message).
func (vm *VM) opaqueError(label string) Value {
	vm.stubsHit["opaque-error"]++
	ep := vm.prog.ImportedPackage("errors")
	if ep == nil {
		unsupported("package errors not loaded")
	}
	est := ep.Type("errorString")
	o := vm.newObj(16, "error "+label)
	return Iface{types.NewPointer(est.Type()), Ptr{o, 0}}
}

func (vm *VM) initPackage(p *ssa.Package) {
	vm.inited[p] = true
	if !initAllowed(p.Pkg.Path()) {
		return
	}
	if f := p.Func("init"); f != nil && f.Blocks != nil {
		vm.forceInit = f
		vm.call(f, nil, nil)
	}
}

// ---------- calls

func (vm *VM) call(fn *ssa.Function, args []Value, bindings []Value) (ret Value) {
	fi := getInfo(fn)
	if fi.intrinsic != nil {
		return fi.intrinsic(vm, nil, args, nil)
	}
	if fn.Blocks == nil {
		unsupported("function without a body: %s", fn)
	}
	if fn == vm.forceInit {
		vm.forceInit = nil
	} else if fn.Pkg != nil && fn.Name() == "init" && fn.Synthetic != "" {
		// package initialiser: only allow-listed packages are initialised (concretely), once per path
		path := fn.Pkg.Pkg.Path()
		if !initAllowed(path) {
			return nil
		}
		if vm.inited[fn.Pkg] {
			return nil
		}
		if vm.curFn != nil && !strings.HasPrefix(path, modPath) {
			// dependency initialisers are run lazily, on first access to one of the package's globals
			return nil
		}
		vm.inited[fn.Pkg] = true
	}
	vm.callDepth++
	if vm.callDepth > 2000 {
		panic(pathEnd{"budget", "call depth"})
	}
	vm.fnsHit[fn]++
	fr := &frame{fn: fn, info: fi, regs: make([]Value, fi.n)}
	copy(fr.regs, args)
	copy(fr.regs[len(fn.Params):], bindings)
	saveFn := vm.curFn
	vm.curFn = fn
	vm.stack = append(vm.stack, fn)
	sp := len(vm.stack)
	if fi.hasDefer {
		defer func() {
			if r := recover(); r != nil {
				gp, ok := r.(goPanic)
				if !ok {
					panic(r)
				}
				fr.panicking = &gp
				vm.recoverStk = append(vm.recoverStk, fr)
				vm.runDefers(fr)
				vm.recoverStk = vm.recoverStk[:len(vm.recoverStk)-1]
				if fr.panicking != nil {
					panic(gp)
				}
				vm.callDepth--
				vm.curFn = saveFn
				vm.stack = vm.stack[:sp-1]
				if fn.Recover != nil {
					ret = vm.run(fr, fn.Recover)
				} else {
					ret = vm.zeroResults(fn)
				}
			}
		}()
	}
	ret = vm.run(fr, fn.Blocks[0])
	vm.callDepth--
	vm.curFn = saveFn
	vm.stack = vm.stack[:sp-1]
	return ret
}

func (vm *VM) zeroResults(fn *ssa.Function) Value {
	res := fn.Signature.Results()
	switch res.Len() {
	case 0:
		return nil
	case 1:
		return vm.zero(res.At(0).Type())
	}
	return vm.zero(res)
}

func (vm *VM) runDefers(fr *frame) {
	for len(fr.defers) > 0 {
		d := fr.defers[len(fr.defers)-1]
		fr.defers = fr.defers[:len(fr.defers)-1]
		vm.invoke(fr, &d.call, d.fn, d.args)
	}
}

// callValue calls a function value (function, closure, builtin).
func (vm *VM) callValue(fr *frame, f Value, args []Value, cc *ssa.CallCommon) Value {
	switch x := f.(type) {
	case *ssa.Function:
		if fi := getInfo(x); fi.intrinsic != nil {
			return fi.intrinsic(vm, fr, args, cc)
		}
		return vm.call(x, args, nil)
	case *Closure:
		if x == nil {
			panic(goPanic{msg: "call of nil func"})
		}
		return vm.call(x.fn, args, x.bs)
	case *ssa.Builtin:
		return vm.builtin(fr, x.Name(), args, cc)
	}
	unsupported("call of %T", f)
	return nil
}

// invoke resolves a CallCommon whose callee/args were already evaluated (fn==nil for invoke mode: args[0] is the receiver iface).
func (vm *VM) invoke(fr *frame, cc *ssa.CallCommon, f Value, args []Value) Value {
	if cc.IsInvoke() {
		recv := args[0].(Iface)
		if recv.t == nil {
			panic(goPanic{msg: "nil interface method call " + cc.Method.Name() + " at " + vm.where()})
		}
		m := vm.prog.LookupMethod(recv.t, cc.Method.Pkg(), cc.Method.Name())
		if m == nil {
			unsupported("method %s not found on %s", cc.Method.Name(), recv.t)
		}
		a2 := make([]Value, len(args))
		copy(a2, args)
		a2[0] = recv.v
		return vm.callValue(fr, m, a2, cc)
	}
	return vm.callValue(fr, f, args, cc)
}

func (vm *VM) evalCall(fr *frame, cc *ssa.CallCommon) (Value, []Value) {
	var f Value
	var args []Value
	if cc.IsInvoke() {
		args = make([]Value, 0, len(cc.Args)+1)
		args = append(args, vm.get(fr, cc.Value))
	} else {
		f = vm.get(fr, cc.Value)
		args = make([]Value, 0, len(cc.Args))
	}
	for _, a := range cc.Args {
		args = append(args, vm.get(fr, a))
	}
	return f, args
}

// ---------- the instruction loop

func (vm *VM) run(fr *frame, b *ssa.BasicBlock) Value {
	var prev *ssa.BasicBlock
	for {
		var next *ssa.BasicBlock
		instrs := b.Instrs
		// phis: parallel assignment
		np := 0
		for np < len(instrs) {
			if _, ok := instrs[np].(*ssa.Phi); !ok {
				break
			}
			np++
		}
		if np > 0 {
			pi := -1
			for i, p := range b.Preds {
				if p == prev {
					pi = i
					break
				}
			}
			if np == 1 {
				x := instrs[0].(*ssa.Phi)
				vm.set(fr, x, vm.get(fr, x.Edges[pi]))
			} else {
				tmp := make([]Value, np)
				for i := 0; i < np; i++ {
					tmp[i] = vm.get(fr, instrs[i].(*ssa.Phi).Edges[pi])
				}
				for i := 0; i < np; i++ {
					vm.set(fr, instrs[i].(*ssa.Phi), tmp[i])
				}
			}
		}
		vm.steps += len(instrs)
		if memPressure.Load() {
			panic(pathEnd{"budget", "process memory budget exceeded"})
		}
		if profSteps != nil {
			profSteps[fr.fn] += len(instrs)
		}
		if vm.steps > vm.cfg.MaxSteps {
			panic(pathEnd{"budget", "step budget exceeded at " + vm.where()})
		}
		for _, ins := range instrs[np:] {
			if p := ins.Pos(); p != token.NoPos {
				vm.lastPos = p
			}
			switch x := ins.(type) {
			case *ssa.BinOp:
				vm.set(fr, x, vm.binop(x, vm.get(fr, x.X), vm.get(fr, x.Y)))
			case *ssa.UnOp:
				vm.set(fr, x, vm.unop(fr, x))
			case *ssa.Call:
				f, args := vm.evalCall(fr, &x.Call)
				vm.set(fr, x, vm.invoke(fr, &x.Call, f, args))
				vm.curFn = fr.fn
			case *ssa.FieldAddr:
				st0 := x.X.Type().Underlying().(*types.Pointer).Elem().Underlying().(*types.Struct)
				if sp, ok := vm.get(fr, x.X).(SymPtr); ok {
					sp.off += vm.fieldOffsets(st0)[x.Field]
					vm.set(fr, x, sp)
					break
				}
				p := vm.get(fr, x.X).(Ptr)
				if p.obj == nil {
					vm.goPanicf("nil pointer dereference (field %d)", x.Field)
				}
				st := x.X.Type().Underlying().(*types.Pointer).Elem().Underlying().(*types.Struct)
				vm.set(fr, x, Ptr{p.obj, p.off + vm.fieldOffsets(st)[x.Field]})
			case *ssa.Field:
				vm.set(fr, x, vm.get(fr, x.X).(Tuple)[x.Field])
			case *ssa.IndexAddr:
				vm.set(fr, x, vm.indexAddr(fr, x))
			case *ssa.Index:
				vm.set(fr, x, vm.index(fr, x))
			case *ssa.Store:
				if sp, ok := vm.get(fr, x.Addr).(SymPtr); ok {
					vm.symStore(sp, vm.get(fr, x.Val), x.Val.Type())
					break
				}
				p := vm.get(fr, x.Addr).(Ptr)
				if p.obj == nil {
					vm.goPanicf("nil pointer dereference (store)")
				}
				vm.store(p, vm.get(fr, x.Val), x.Val.Type())
			case *ssa.If:
				if vm.decide(vm.get(fr, x.Cond).(*Term)) {
					next = b.Succs[0]
				} else {
					next = b.Succs[1]
				}
			case *ssa.Jump:
				next = b.Succs[0]
			case *ssa.Return:
				switch len(x.Results) {
				case 0:
					return nil
				case 1:
					return vm.get(fr, x.Results[0])
				}
				tu := make(Tuple, len(x.Results))
				for i, r := range x.Results {
					tu[i] = vm.get(fr, r)
				}
				return tu
			case *ssa.Extract:
				vm.set(fr, x, vm.get(fr, x.Tuple).(Tuple)[x.Index])
			case *ssa.Alloc:
				et := x.Type().Underlying().(*types.Pointer).Elem()
				vm.set(fr, x, Ptr{vm.newObj(sizeof(et), "alloc "+x.Comment), 0})
			case *ssa.Convert:
				vm.set(fr, x, vm.convert(vm.get(fr, x.X), x.X.Type(), x.Type()))
			case *ssa.ChangeType:
				vm.set(fr, x, vm.get(fr, x.X))
			case *ssa.ChangeInterface:
				vm.set(fr, x, vm.get(fr, x.X))
			case *ssa.MakeInterface:
				vm.set(fr, x, Iface{x.X.Type(), vm.get(fr, x.X)})
			case *ssa.TypeAssert:
				vm.set(fr, x, vm.typeAssert(fr, x))
			case *ssa.Slice:
				vm.set(fr, x, vm.sliceOp(fr, x))
			case *ssa.MakeSlice:
				vm.set(fr, x, vm.makeSlice(fr, x))
			case *ssa.MakeClosure:
				bs := make([]Value, len(x.Bindings))
				for i, bb := range x.Bindings {
					bs[i] = vm.get(fr, bb)
				}
				vm.set(fr, x, &Closure{x.Fn.(*ssa.Function), bs})
			case *ssa.MakeMap:
				vm.set(fr, x, &MapObj{kt: x.Type().Underlying().(*types.Map).Key()})
			case *ssa.MapUpdate:
				vm.mapUpdate(vm.get(fr, x.Map).(*MapObj), vm.get(fr, x.Key), vm.get(fr, x.Value))
			case *ssa.Lookup:
				vm.set(fr, x, vm.lookup(fr, x))
			case *ssa.Range:
				vm.set(fr, x, &rangeIter{src: vm.get(fr, x.X)})
			case *ssa.Next:
				vm.set(fr, x, vm.rangeNext(fr, x))
			case *ssa.Panic:
				v := vm.get(fr, x.X)
				panic(goPanic{val: v, msg: "explicit panic at " + vm.where()})
			case *ssa.Defer:
				f, args := vm.evalCall(fr, &x.Call)
				fr.defers = append(fr.defers, deferred{x.Call, f, args})
			case *ssa.RunDefers:
				vm.runDefers(fr)
			case *ssa.Go:
				vm.goStmt(fr, x)
			case *ssa.MakeChan:
				vm.set(fr, x, vm.makeChan(vm.concreteInt(vm.get(fr, x.Size))))
			case *ssa.Send:
				vm.chanSend(vm.get(fr, x.Chan).(*ChanObj), vm.get(fr, x.X))
			case *ssa.Select:
				vm.set(fr, x, vm.selectStmt(fr, x))
			case *ssa.SliceToArrayPointer:
				s := vm.get(fr, x.X).(Slice)
				s = vm.materialise(s, sizeof(x.X.Type().Underlying().(*types.Slice).Elem()))
				n := int(x.Type().Underlying().(*types.Pointer).Elem().Underlying().(*types.Array).Len())
				if s.len < n {
					vm.goPanicf("slice to array pointer: length %d < %d", s.len, n)
				}
				vm.set(fr, x, Ptr{s.obj, s.off})
			case *ssa.DebugRef:
			default:
				unsupported("instruction %T in %s", ins, fr.fn)
			}
		}
		if next == nil {
			panic(fmt.Sprintf("block without terminator in %s", fr.fn))
		}
		prev, b = b, next
	}
}

// ---------- operators

func (vm *VM) binop(x *ssa.BinOp, a, b Value) Value {
	ts := vm.ts
	at, aok := a.(*Term)
	bt, bok := b.(*Term)
	if aok && bok {
		sgn := isSignedT(x.X.Type())
		switch x.Op {
		case token.ADD:
			return ts.Add(at, bt)
		case token.SUB:
			return ts.Sub(at, bt)
		case token.MUL:
			return ts.Mul(at, bt)
		case token.QUO, token.REM:
			if !vm.decide(ts.Not(ts.Eq(bt, ts.BV(bt.w, 0)))) {
				vm.goPanicf("integer divide by zero")
			}
			if x.Op == token.QUO {
				if sgn {
					return ts.SDiv(at, bt)
				}
				return ts.UDiv(at, bt)
			}
			if sgn {
				return ts.SRem(at, bt)
			}
			return ts.URem(at, bt)
		case token.AND:
			if at.w == 0 {
				return ts.And(at, bt)
			}
			return ts.BAnd(at, bt)
		case token.OR:
			if at.w == 0 {
				return ts.Or(at, bt)
			}
			return ts.BOr(at, bt)
		case token.XOR:
			if at.w == 0 {
				return ts.Not(ts.Eq(at, bt))
			}
			return ts.BXor(at, bt)
		case token.AND_NOT:
			return ts.BAnd(at, ts.BNot(bt))
		case token.SHL, token.SHR:
			if isSignedT(x.Y.Type()) && !ts.signedSmall(bt) {
				if !vm.decide(ts.Not(ts.Slt(bt, ts.BV(bt.w, 0)))) {
					vm.goPanicf("negative shift amount")
				}
			}
			cnt := ts.alignShift(bt, at.w)
			if x.Op == token.SHL {
				return ts.Shl(at, cnt)
			}
			if sgn {
				return ts.AShr(at, cnt)
			}
			return ts.LShr(at, cnt)
		case token.EQL:
			return ts.Eq(at, bt)
		case token.NEQ:
			return ts.Not(ts.Eq(at, bt))
		case token.LSS:
			if sgn {
				return ts.Slt(at, bt)
			}
			return ts.Ult(at, bt)
		case token.LEQ:
			if sgn {
				return ts.Sle(at, bt)
			}
			return ts.Ule(at, bt)
		case token.GTR:
			if sgn {
				return ts.Slt(bt, at)
			}
			return ts.Ult(bt, at)
		case token.GEQ:
			if sgn {
				return ts.Sle(bt, at)
			}
			return ts.Ule(bt, at)
		}
		unsupported("binop %s", x.Op)
	}
	switch x.Op {
	case token.EQL:
		return vm.valueEq(a, b, x.X.Type())
	case token.NEQ:
		return ts.Not(vm.valueEq(a, b, x.X.Type()))
	case token.ADD:
		if sa, ok := a.(Str); ok {
			sb := b.(Str)
			if sa.n == 0 {
				return sb
			}
			if sb.n == 0 {
				return sa
			}
			o := vm.newObj(sa.n+sb.n, "string-concat")
			vm.copyBytes(o, 0, sa.obj, sa.off, sa.n)
			vm.copyBytes(o, sa.n, sb.obj, sb.off, sb.n)
			return Str{o, 0, sa.n + sb.n}
		}
	case token.LSS, token.LEQ, token.GTR, token.GEQ:
		if sa, ok := a.(Str); ok {
			s1, ok1 := vm.goString(sa)
			s2, ok2 := vm.goString(b.(Str))
			if ok1 && ok2 {
				switch x.Op {
				case token.LSS:
					return ts.Bool(s1 < s2)
				case token.LEQ:
					return ts.Bool(s1 <= s2)
				case token.GTR:
					return ts.Bool(s1 > s2)
				default:
					return ts.Bool(s1 >= s2)
				}
			}
		}
	}
	unsupported("binop %s on %T,%T", x.Op, a, b)
	return nil
}

func (vm *VM) unop(fr *frame, x *ssa.UnOp) Value {
	ts := vm.ts
	v := vm.get(fr, x.X)
	switch x.Op {
	case token.MUL:
		if sp, ok := v.(SymPtr); ok {
			return vm.symLoad(sp, x.Type())
		}
		p := v.(Ptr)
		if p.obj == nil {
			vm.goPanicf("nil pointer dereference (load)")
		}
		return vm.load(p, x.Type())
	case token.NOT:
		return ts.Not(v.(*Term))
	case token.SUB:
		t := v.(*Term)
		return ts.Sub(ts.BV(t.w, 0), t)
	case token.XOR:
		return ts.BNot(v.(*Term))
	case token.ARROW:
		r, ok := vm.chanRecv(v.(*ChanObj), x.Type(), x.CommaOk)
		if x.CommaOk {
			return Tuple{r, ts.Bool(ok)}
		}
		return r
	}
	unsupported("unop %s", x.Op)
	return nil
}

func (vm *VM) convert(v Value, from, to types.Type) Value {
	ts := vm.ts
	fu, tu := from.Underlying(), to.Underlying()
	if t, ok := v.(*Term); ok {
		if isIntT(to) {
			fw, tw := t.w, widthOf(to)
			if fw == 0 {
				unsupported("convert bool")
			}
			switch {
			case fw == tw:
				return t
			case tw < fw:
				return ts.Extract(tw-1, 0, t)
			case isSignedT(from):
				return ts.SExt(t, tw)
			default:
				return ts.ZExt(t, tw)
			}
		}
		if isStringT(to) && isIntT(from) {
			unsupported("string(rune) conversion")
		}
		if isUnsafePtrT(to) {
			if t.op == OpConst && t.c == 0 {
				return Ptr{}
			}
			unsupported("uintptr to unsafe.Pointer")
		}
		unsupported("convert %s to %s", from, to)
	}
	switch x := v.(type) {
	case Ptr:
		if _, ok := tu.(*types.Pointer); ok || isUnsafePtrT(to) {
			return x
		}
		if isIntT(to) { // uintptr(unsafe.Pointer(p)): only nil-ness and alignment are meaningful; model as base*4096+off
			if x.obj == nil {
				return ts.BV(64, 0)
			}
			return ts.BV(64, uint64(x.obj.id)<<32|uint64(x.off))
		}
	case Str:
		if sl, ok := tu.(*types.Slice); ok {
			if sizeof(sl.Elem()) != 1 {
				unsupported("string to %s", to)
			}
			o := vm.newObj(x.n, "[]byte(string)")
			vm.copyBytes(o, 0, x.obj, x.off, x.n)
			return Slice{obj: o, off: 0, len: x.n, cap: x.n}
		}
		if isStringT(to) {
			return x
		}
	case Slice:
		if isStringT(to) {
			if sizeof(fu.(*types.Slice).Elem()) != 1 {
				unsupported("%s to string", from)
			}
			x = vm.materialise(x, 1)
			if x.len == 0 {
				return Str{}
			}
			o := vm.newObj(x.len, "string([]byte)")
			vm.copyBytes(o, 0, x.obj, x.off, x.len)
			return Str{o, 0, x.len}
		}
		if _, ok := tu.(*types.Slice); ok {
			return x
		}
	}
	unsupported("convert %T from %s to %s", v, from, to)
	return nil
}

func (vm *VM) typeAssert(fr *frame, x *ssa.TypeAssert) Value {
	i := vm.get(fr, x.X).(Iface)
	var ok bool
	var v Value
	if it, isIface := x.AssertedType.Underlying().(*types.Interface); isIface {
		ok = i.t != nil && types.Implements(i.t, it)
		v = i
	} else {
		ok = i.t != nil && types.Identical(i.t, x.AssertedType)
		v = i.v
	}
	if !ok {
		v = vm.zero(x.AssertedType)
	}
	if x.CommaOk {
		return Tuple{v, vm.ts.Bool(ok)}
	}
	if !ok {
		vm.goPanicf("interface conversion: %v is not %s", i.t, x.AssertedType)
	}
	return v
}

// idx64 widens an index/length operand to 64 bits according to its static type.
func (vm *VM) idx64(v Value, t types.Type) *Term {
	tt := v.(*Term)
	if tt.w == 64 {
		return tt
	}
	if isSignedT(t) {
		return vm.ts.SExt(tt, 64)
	}
	return vm.ts.ZExt(tt, 64)
}

// boundedIndex checks 0 <= idx < n (Go panic otherwise) and returns a concrete index.
func (vm *VM) boundedIndex(idx *Term, n int) int {
	ts := vm.ts
	if idx.op == OpConst {
		i := int64(idx.c)
		if i < 0 || i >= int64(n) {
			vm.goPanicf("index out of range [%d] with length %d", i, n)
		}
		return int(i)
	}
	if !vm.decide(ts.Ult(idx, ts.BV(64, uint64(n)))) {
		vm.goPanicf("index out of range [symbolic] with length %d", n)
	}
	return vm.concreteInt(idx)
}

func (vm *VM) indexAddr(fr *frame, x *ssa.IndexAddr) Value {
	base := vm.get(fr, x.X)
	idx := vm.idx64(vm.get(fr, x.Index), x.Index.Type())
	switch bs := base.(type) {
	case Slice:
		et := x.X.Type().Underlying().(*types.Slice).Elem()
		es := sizeof(et)
		if bs.lazy {
			if !vm.decide(vm.ts.Ult(idx, bs.symLen)) {
				vm.goPanicf("index out of range [symbolic] with symbolic length")
			}
			i := vm.concreteInt(idx)
			vm.ensure(bs.obj, bs.off+(i+1)*es)
			return Ptr{bs.obj, bs.off + i*es}
		}
		if bs.symLen != nil {
			unsupported("element access on a length-only slice")
		}
		if idx.op != OpConst && scalarOnly(et) && bs.len > 1 {
			if !vm.decide(vm.ts.Ult(idx, vm.ts.BV(64, uint64(bs.len)))) {
				vm.goPanicf("index out of range [symbolic] with length %d", bs.len)
			}
			return SymPtr{obj: bs.obj, off: bs.off, idx: idx, stride: es, n: bs.len}
		}
		i := vm.boundedIndex(idx, bs.len)
		return Ptr{bs.obj, bs.off + i*es}
	case SymPtr:
		return vm.indexAddrArr(vm.concretePtr(bs), idx, x)
	case Ptr:
		return vm.indexAddrArr(bs, idx, x)
	}
	unsupported("IndexAddr on %T", base)
	return nil
}

func (vm *VM) indexAddrArr(bs Ptr, idx *Term, x *ssa.IndexAddr) Value {
	if bs.obj == nil {
		vm.goPanicf("nil pointer dereference (index)")
	}
	at := x.X.Type().Underlying().(*types.Pointer).Elem().Underlying().(*types.Array)
	if idx.op != OpConst && scalarOnly(at.Elem()) && at.Len() > 1 {
		if !vm.decide(vm.ts.Ult(idx, vm.ts.BV(64, uint64(at.Len())))) {
			vm.goPanicf("index out of range [symbolic] with length %d", at.Len())
		}
		return SymPtr{obj: bs.obj, off: bs.off, idx: idx, stride: sizeof(at.Elem()), n: int(at.Len())}
	}
	i := vm.boundedIndex(idx, int(at.Len()))
	return Ptr{bs.obj, bs.off + i*sizeof(at.Elem())}
}

func (vm *VM) index(fr *frame, x *ssa.Index) Value {
	base := vm.get(fr, x.X)
	idx := vm.idx64(vm.get(fr, x.Index), x.Index.Type())
	switch bs := base.(type) {
	case Tuple:
		return bs[vm.boundedIndex(idx, len(bs))]
	case Str:
		i := vm.boundedIndex(idx, bs.n)
		return vm.byteAt(bs.obj, bs.off+i)
	}
	unsupported("Index on %T", base)
	return nil
}

func (vm *VM) sliceOp(fr *frame, x *ssa.Slice) Value {
	ts := vm.ts
	base := vm.get(fr, x.X)
	var obj *Obj
	var off, ln, cp, es int
	isStr := false
	switch bs := base.(type) {
	case Slice:
		if bs.lazy {
			return vm.sliceLazy(fr, x, bs)
		}
		if bs.symLen != nil {
			unsupported("slicing a length-only slice")
		}
		obj, off, ln, cp = bs.obj, bs.off, bs.len, bs.cap
		es = sizeof(x.X.Type().Underlying().(*types.Slice).Elem())
	case Str:
		obj, off, ln, cp, es, isStr = bs.obj, bs.off, bs.n, bs.n, 1, true
	case Ptr:
		if bs.obj == nil {
			vm.goPanicf("nil pointer dereference (slice of array)")
		}
		at := x.X.Type().Underlying().(*types.Pointer).Elem().Underlying().(*types.Array)
		obj, off, ln, cp, es = bs.obj, bs.off, int(at.Len()), int(at.Len()), sizeof(at.Elem())
	default:
		unsupported("Slice on %T", base)
	}
	operand := func(v ssa.Value, def int) *Term {
		if v == nil {
			return ts.BV(64, uint64(def))
		}
		return vm.idx64(vm.get(fr, v), v.Type())
	}
	lo := operand(x.Low, 0)
	hi := operand(x.High, ln)
	mx := operand(x.Max, cp)
	// validity: 0 <= lo <= hi <= max <= cap (unsigned compare covers negatives)
	valid := ts.And(ts.Ule(lo, hi), ts.And(ts.Ule(hi, mx), ts.Ule(mx, ts.BV(64, uint64(cp)))))
	if !vm.decide(valid) {
		vm.goPanicf("slice bounds out of range [%s:%s:%s] with capacity %d", lo, hi, mx, cp)
	}
	l, h, m := vm.concreteInt(lo), vm.concreteInt(hi), vm.concreteInt(mx)
	if isStr {
		if h-l == 0 {
			return Str{}
		}
		return Str{obj, off + l, h - l}
	}
	return Slice{obj: obj, off: off + l*es, len: h - l, cap: m - l}
}

// sliceLazy: s[lo:hi] on a lazily sized buffer.
func (vm *VM) sliceLazy(fr *frame, x *ssa.Slice, bs Slice) Value {
	ts := vm.ts
	es := sizeof(x.X.Type().Underlying().(*types.Slice).Elem())
	lo := ts.BV(64, 0)
	if x.Low != nil {
		lo = vm.idx64(vm.get(fr, x.Low), x.Low.Type())
	}
	if x.High == nil && x.Max == nil {
		if !vm.decide(ts.Ule(lo, bs.symLen)) {
			vm.goPanicf("slice bounds out of range [symbolic:] with symbolic length")
		}
		l := vm.concreteInt(lo)
		return Slice{obj: bs.obj, off: bs.off + l*es, symLen: ts.Sub(bs.symLen, ts.BV(64, uint64(l))), lazy: true}
	}
	hi := bs.symLen
	if x.High != nil {
		hi = vm.idx64(vm.get(fr, x.High), x.High.Type())
	}
	if !vm.decide(ts.And(ts.Ule(lo, hi), ts.Ule(hi, bs.symLen))) {
		vm.goPanicf("slice bounds out of range with symbolic length")
	}
	l, h := vm.concreteInt(lo), vm.concreteInt(hi)
	vm.ensure(bs.obj, bs.off+h*es)
	return Slice{obj: bs.obj, off: bs.off + l*es, len: h - l, cap: h - l}
}

func (vm *VM) makeSlice(fr *frame, x *ssa.MakeSlice) Value {
	ts := vm.ts
	et := x.Type().Underlying().(*types.Slice).Elem()
	es := sizeof(et)
	ln := vm.idx64(vm.get(fr, x.Len), x.Len.Type())
	cp := vm.idx64(vm.get(fr, x.Cap), x.Cap.Type())
	if ln.op != OpConst && ln == cp && scalarOnly(et) {
		// a buffer whose length is chosen by the (symbolic) input: sized lazily instead of forking per length
		lim := ts.BV(64, uint64(1)<<40)
		if !vm.decide(ts.Ult(ln, lim)) {
			vm.goPanicf("makeslice: len out of range")
		}
		if vm.cfg.CheckAllocSize {
			vm.obligation(ts.Ule(ln, ts.BV(64, uint64(vm.cfg.MaxAlloc))), "alloc", "allocation-bounded")
			vm.assume(ts.Ule(ln, ts.BV(64, uint64(vm.cfg.MaxAlloc))))
		}
		o := vm.newObj(0, "make(lazy) "+x.Type().String())
		o.lazyLen = ts.Mul(ln, ts.BV(64, uint64(es)))
		return Slice{obj: o, symLen: ln, lazy: true}
	}
	if ln.op != OpConst || cp.op != OpConst {
		// negative or absurd lengths panic natively (makeslice: len out of range)
		lim := ts.BV(64, uint64(1)<<40)
		if !vm.decide(ts.And(ts.Ule(ln, cp), ts.Ult(cp, lim))) {
			vm.goPanicf("makeslice: len/cap out of range")
		}
		if vm.cfg.CheckAllocSize {
			vm.obligation(ts.Ule(cp, ts.BV(64, uint64(vm.cfg.MaxAlloc))), "alloc", "allocation-bounded")
			vm.assume(ts.Ule(cp, ts.BV(64, uint64(vm.cfg.MaxAlloc))))
		}
	}
	n, c := vm.concreteInt(ln), vm.concreteInt(cp)
	if n < 0 || c < n {
		vm.goPanicf("makeslice: len out of range")
	}
	return Slice{obj: vm.newObj(c*es, "make "+x.Type().String()), off: 0, len: n, cap: c}
}

// ---------- maps and ranges

func (vm *VM) mapFind(m *MapObj, k Value) int {
	for i, kk := range m.keys {
		if vm.decide(vm.valueEq(kk, k, m.kt)) {
			return i
		}
	}
	return -1
}

func (vm *VM) mapUpdate(m *MapObj, k, v Value) {
	if m == nil {
		panic(goPanic{msg: "assignment to entry in nil map"})
	}
	if i := vm.mapFind(m, k); i >= 0 {
		m.vals[i] = v
		return
	}
	m.keys = append(m.keys, k)
	m.vals = append(m.vals, v)
}

func (vm *VM) lookup(fr *frame, x *ssa.Lookup) Value {
	switch m := vm.get(fr, x.X).(type) {
	case *MapObj:
		vt := x.X.Type().Underlying().(*types.Map).Elem()
		var v Value
		ok := false
		if m != nil {
			if i := vm.mapFind(m, vm.get(fr, x.Index)); i >= 0 {
				v, ok = m.vals[i], true
			}
		}
		if !ok {
			v = vm.zero(vt)
		}
		if x.CommaOk {
			return Tuple{v, vm.ts.Bool(ok)}
		}
		return v
	case Str:
		i := vm.boundedIndex(vm.idx64(vm.get(fr, x.Index), x.Index.Type()), m.n)
		return vm.byteAt(m.obj, m.off+i)
	}
	unsupported("Lookup on %T", vm.get(fr, x.X))
	return nil
}

type rangeIter struct {
	src Value
	i   int
}

func (vm *VM) rangeNext(fr *frame, x *ssa.Next) Value {
	it := vm.get(fr, x.Iter).(*rangeIter)
	ts := vm.ts
	switch s := it.src.(type) {
	case *MapObj:
		if s == nil || it.i >= len(s.keys) {
			return Tuple{ts.tFalse, nil, nil}
		}
		it.i++
		return Tuple{ts.tTrue, s.keys[it.i-1], s.vals[it.i-1]}
	case Str:
		if it.i >= s.n {
			return Tuple{ts.tFalse, ts.BV(64, 0), ts.BV(32, 0)}
		}
		b := vm.byteAt(s.obj, s.off+it.i)
		if b.op != OpConst || b.c >= 0x80 {
			unsupported("range over a non-ASCII or symbolic string")
		}
		it.i++
		return Tuple{ts.tTrue, ts.BV(64, uint64(it.i-1)), ts.BV(32, b.c)}
	}
	unsupported("range over %T", it.src)
	return nil
}
