package main

// Loading /repo into SSA (harnesses injected by overlay) and exhaustive exploration of one harness instance.

import (
	"fmt"
	"os"
	"path/filepath"
	"sort"
	"strings"
	"time"

	"golang.org/x/tools/go/packages"
	"golang.org/x/tools/go/ssa"
	"golang.org/x/tools/go/ssa/ssautil"
)

// repoDir is the tree under check. The registered commands always use /repo; VERIF_REPO exists so that seeded changes can be
// tried in a scratch worktree without touching /repo (development only, never set by ./check).
var repoDir = func() string {
	if d := os.Getenv("VERIF_REPO"); d != "" {
		return d
	}
	return "/repo"
}()

const modPath = "github.com/RoaringBitmap/roaring/v2"

var harnessPkgs = map[string]string{ // harness dir name -> repo sub dir
	"roaring":   "",
	"roaring64": "roaring64",
	"bsi":       "BitSliceIndexing",
	"vsym":      "internal/vsym",
}

type Loaded struct {
	prog *ssa.Program
	pkgs map[string]*ssa.Package // by harness dir name
}

func verifRoot() string {
	if r := os.Getenv("VERIF_ROOT"); r != "" {
		return r
	}
	exe, _ := os.Executable()
	return filepath.Dir(filepath.Dir(exe))
}

// overlayFiles maps virtual paths under /repo to real harness files under /verif/harness.
func overlayFiles() map[string]string {
	out := map[string]string{}
	root := filepath.Join(verifRoot(), "harness")
	for dir, sub := range harnessPkgs {
		ents, _ := os.ReadDir(filepath.Join(root, dir))
		for _, e := range ents {
			if strings.HasSuffix(e.Name(), ".go") {
				out[filepath.Join(repoDir, sub, e.Name())] = filepath.Join(root, dir, e.Name())
			}
		}
	}
	return out
}

func childEnv() []string {
	var env []string
	for _, e := range os.Environ() {
		if strings.HasPrefix(e, "GOTOOLCHAIN=") || strings.HasPrefix(e, "GOFLAGS=") || strings.HasPrefix(e, "GOPROXY=") || strings.HasPrefix(e, "GOSUMDB=") {
			continue
		}
		env = append(env, e)
	}
	return append(env, "GOFLAGS=-mod=mod", "GOPROXY=off")
}

func loadRepo() (*Loaded, error) {
	ov := map[string][]byte{}
	for virt, real := range overlayFiles() {
		if strings.HasSuffix(virt, "_test.go") {
			continue
		}
		b, err := os.ReadFile(real)
		if err != nil {
			return nil, err
		}
		if strings.HasSuffix(real, "vsym_native.go") {
			continue // native tape reader: the VM models vsym itself
		}
		ov[virt] = b
	}
	cfg := &packages.Config{Mode: packages.LoadAllSyntax, Dir: repoDir, Env: childEnv(),
		BuildFlags: []string{"-tags=verif symgo math_big_pure_go"}, Overlay: ov}
	pkgs, err := packages.Load(cfg, ".", "./roaring64", "./BitSliceIndexing", "./internal", "./internal/vsym")
	if err != nil {
		return nil, err
	}
	nerr := 0
	packages.Visit(pkgs, nil, func(p *packages.Package) {
		for _, e := range p.Errors {
			fmt.Fprintln(os.Stderr, "load error:", e)
			nerr++
		}
	})
	if nerr > 0 {
		return nil, fmt.Errorf("%d package load errors", nerr)
	}
	prog, spkgs := ssautil.AllPackages(pkgs, ssa.InstantiateGenerics)
	prog.Build()
	l := &Loaded{prog: prog, pkgs: map[string]*ssa.Package{}}
	for _, p := range spkgs {
		if p == nil {
			continue
		}
		switch p.Pkg.Path() {
		case modPath:
			l.pkgs["roaring"] = p
		case modPath + "/roaring64":
			l.pkgs["roaring64"] = p
		case modPath + "/BitSliceIndexing":
			l.pkgs["bsi"] = p
		case modPath + "/internal":
			l.pkgs["internal"] = p
		}
	}
	return l, nil
}

type Instance struct {
	Property       string         `json:"property"`
	Pkg            string         `json:"pkg"`
	Func           string         `json:"func"`
	Params         map[string]int `json:"params"`
	Note           string         `json:"note,omitempty"`
	MaxPaths       int            `json:"-"`
	MaxSteps       int            `json:"-"`
	Timeout        time.Duration  `json:"-"`
	QueryTimeoutMs int            // per-query solver budget for this instance (0: the tier default)
	NumCPU         int            `json:"-"`
	CheckAlloc     bool           `json:"-"`
	Tier           int            `json:"-"` // 0 quick+thorough, 1 thorough only
	Solvers        string         `json:"-"` // portfolio override (comma separated)
}

func (in *Instance) Name() string {
	ks := make([]string, 0, len(in.Params))
	for k := range in.Params {
		ks = append(ks, k)
	}
	sort.Strings(ks)
	var sb strings.Builder
	sb.WriteString(in.Func)
	sb.WriteByte('(')
	for i, k := range ks {
		if i > 0 {
			sb.WriteByte(',')
		}
		fmt.Fprintf(&sb, "%s=%d", k, in.Params[k])
	}
	sb.WriteByte(')')
	return sb.String()
}

type Witness struct {
	Tape     []uint64
	Observed []uint64
	Reached  []string
}

type InstResult struct {
	Inst          *Instance
	Paths         int
	Ends          map[string]int
	Decisions     int
	Steps         int
	AssertsFolded int
	AssertsSolver int
	AssertLabels  map[string]int
	Reached       map[string]bool
	Violation     *Violation
	Inconclusive  []string
	Stats         SolverStats
	FnsHit        map[string]int
	StubsHit      map[string]int
	Witnesses     []*Witness
	Inputs        int
	SamplePC      string
	Wall          time.Duration
	EndMsgs       map[string]string
	Wins          map[string]int
}

func (l *Loaded) runInstance(in *Instance, solverKinds []string, queryTimeoutMs int) (res *InstResult) {
	t0 := time.Now()
	res = &InstResult{Inst: in, Ends: map[string]int{}, AssertLabels: map[string]int{}, Reached: map[string]bool{},
		FnsHit: map[string]int{}, StubsHit: map[string]int{}, EndMsgs: map[string]string{}}
	pkg := l.pkgs[in.Pkg]
	if pkg == nil {
		res.Inconclusive = append(res.Inconclusive, "package not loaded: "+in.Pkg)
		return res
	}
	fn := pkg.Func(in.Func)
	if fn == nil {
		res.Inconclusive = append(res.Inconclusive, "harness function not found: "+in.Func)
		return res
	}
	ts := NewTermStore()
	sol := NewPortfolio(ts, solverKinds, queryTimeoutMs)
	defer func() {
		res.Stats = sol.stats
		res.Wins = sol.Wins
		sol.Close()
		res.Wall = time.Since(t0)
	}()
	cfg := &Config{MaxSteps: 20_000_000, MaxHeap: 1 << 30, MaxConcretise: 200, MaxAlloc: 1 << 24, NumCPU: 2, Params: in.Params, CheckAllocSize: in.CheckAlloc}
	if in.MaxSteps > 0 {
		cfg.MaxSteps = in.MaxSteps
	}
	if in.NumCPU > 0 {
		cfg.NumCPU = in.NumCPU
	}
	maxPaths := in.MaxPaths
	if maxPaths == 0 {
		maxPaths = 200_000
	}
	timeout := in.Timeout
	if timeout == 0 {
		timeout = 20 * time.Minute
	}
	sol.deadline = t0.Add(timeout)
	pending := []pendingPath{{}}
	for len(pending) > 0 {
		if res.Paths >= maxPaths {
			res.Inconclusive = append(res.Inconclusive, fmt.Sprintf("path budget %d exhausted (%d pending)", maxPaths, len(pending)))
			return res
		}
		if time.Since(t0) > timeout {
			res.Inconclusive = append(res.Inconclusive, fmt.Sprintf("time budget %v exhausted after %d paths (%d pending)", timeout, res.Paths, len(pending)))
			return res
		}
		p := pending[len(pending)-1]
		pending = pending[:len(pending)-1]
		vm := NewVM(l.prog, ts, sol, cfg, p)
		end := vm.runPath(fn)
		res.Paths++
		res.Ends[end.kind]++
		if end.msg != "" {
			if _, ok := res.EndMsgs[end.kind]; !ok {
				res.EndMsgs[end.kind] = end.msg
			}
		}
		res.Decisions += vm.decisions
		res.Steps += vm.steps
		res.AssertsFolded += vm.assertsFolded
		res.AssertsSolver += vm.assertsSolver
		if len(vm.inputs) > res.Inputs {
			res.Inputs = len(vm.inputs)
		}
		for k, v := range vm.assertsHit {
			res.AssertLabels[k] += v
		}
		for k := range vm.reached {
			res.Reached[k] = true
		}
		for f, n := range vm.fnsHit {
			res.FnsHit[f.String()] += n
		}
		for k, n := range vm.stubsHit {
			res.StubsHit[k] += n
		}
		res.Inconclusive = append(res.Inconclusive, vm.inconcl...)
		switch end.kind {
		case "unsupported", "budget", "unknown", "deadlock":
			res.Inconclusive = append(res.Inconclusive, end.kind+": "+end.msg)
		}
		if vm.violation != nil {
			res.Violation = vm.violation
			return res
		}
		if end.kind == "ok" && len(res.Witnesses) < 2 && (len(res.Witnesses) == 0 || len(pending)+len(vm.pending) == 0) {
			if w := vm.witness(); w != nil {
				res.Witnesses = append(res.Witnesses, w)
				if res.SamplePC == "" {
					var sb strings.Builder
					for i, c := range vm.pc {
						if i >= 6 {
							sb.WriteString(" ∧ …")
							break
						}
						if i > 0 {
							sb.WriteString(" ∧ ")
						}
						sb.WriteString(c.String())
					}
					res.SamplePC = sb.String()
				}
			}
		}
		pending = append(pending, vm.pending...)
		if len(res.Inconclusive) > 50 {
			return res
		}
	}
	return res
}

// runPath executes the harness once under vm.prefix and classifies how the path ended.
func (vm *VM) runPath(fn *ssa.Function) (end pathEnd) {
	defer func() {
		if r := recover(); r != nil {
			switch e := r.(type) {
			case pathEnd:
				end = e
				if e.kind == "unsupported" || e.kind == "oob" || e.kind == "rowrite" {
					end.msg += " [at " + vm.where() + "]"
					if os.Getenv("SYMGO_TRACE") != "" {
						for i := len(vm.stack) - 1; i >= 0 && i > len(vm.stack)-12; i-- {
							end.msg += "\n    called from " + vm.stack[i].String()
						}
					}
				}
			case goPanic:
				end = pathEnd{"panic", e.msg}
			default:
				if os.Getenv("SYMGO_CRASH") != "" {
					vm.drainQuiet()
					panic(r)
				}
				// an engine-level failure (unsupported value shape): the path is inconclusive, never a verdict
				end = pathEnd{"unsupported", fmt.Sprintf("engine: %v [at %s]", r, vm.where())}
			}
		}
		vm.drainQuiet()
		// memory-safety and panic ends are violations: produce the input that reaches them
		switch end.kind {
		case "panic", "gopanic", "oob", "rowrite":
			if vm.violation == nil && !vm.inPrefix() {
				func() {
					defer func() {
						if r := recover(); r != nil {
							if _, ok := r.(pathEnd); !ok {
								panic(r)
							}
						}
					}()
					vm.ensureModel()
					kind := end.kind
					if kind == "gopanic" {
						kind = "panic"
					}
					vm.violation = &Violation{Kind: kind, Label: end.kind + ": " + end.msg, Model: vm.cur, Tape: vm.tape(vm.cur), Prefix: append([]dec{}, vm.prefix...), Where: vm.where()}
				}()
			}
		}
	}()
	vm.call(fn, nil, nil)
	return pathEnd{"ok", ""}
}

func (vm *VM) drainQuiet() {
	defer func() { recover() }()
	vm.drainGoroutines()
}

func (vm *VM) witness() (w *Witness) {
	defer func() {
		if r := recover(); r != nil {
			if _, ok := r.(pathEnd); !ok {
				panic(r)
			}
			w = nil
		}
	}()
	vm.ensureModel()
	w = &Witness{Tape: vm.tape(vm.cur)}
	for _, o := range vm.observed {
		v := vm.ts.Eval(o, vm.cur)
		w.Observed = append(w.Observed, v)
	}
	for k := range vm.reached {
		w.Reached = append(w.Reached, k)
	}
	sort.Strings(w.Reached)
	return w
}
