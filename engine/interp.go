package main

// The SSA interpreter: one VM = one path (re-execution under a decision prefix).

import (
	"fmt"
	"go/token"
	"go/types"
	"os"
	"strings"
	"sync"

	"golang.org/x/tools/go/ssa"
)

type Config struct {
	MaxSteps       int // SSA instructions per path
	MaxHeap        int // bytes per path
	MaxConcretise  int // feasible values enumerated per symbolic length/index
	MaxAlloc       int // elements: a make() that can exceed this is reported (attacker-controlled allocation)
	NumCPU         int
	Params         map[string]int
	CheckAllocSize bool
}

type dec struct {
	b bool
	v uint64 // candidate value for concretisation decisions
}

type pendingPath struct {
	prefix []dec
	model  Model
}

type Violation struct {
	Kind   string // assert, panic, rowrite, oob, alloc, hang
	Label  string
	Model  Model
	Tape   []uint64
	Prefix []dec
	Where  string
}

type VM struct {
	prog *ssa.Program
	ts   *TermStore
	sol  *Portfolio
	cfg  *Config

	pc          []*Term
	prefix      []dec
	prefixModel Model
	depth       int
	pending     []pendingPath
	cur         Model
	curValid    bool

	inputs                                       []*Term
	steps                                        int
	nobj                                         int
	heapBytes                                    int
	globals                                      map[*ssa.Global]*Obj
	inited                                       map[*ssa.Package]bool
	offCache                                     map[*types.Struct][]int
	strCache                                     map[string]Str
	observed                                     []*Term
	reached                                      map[string]bool
	assertsHit                                   map[string]int
	assertsFolded, assertsSolver, assertsSkipped int
	decisions                                    int
	violation                                    *Violation
	inconcl                                      []string
	callDepth                                    int
	recoverStk                                   []*frame
	stubsHit                                     map[string]int
	fnsHit                                       map[*ssa.Function]int
	sched                                        *scheduler
	wgs                                          map[wgKey]*int
	lastPos                                      token.Pos
	curFn                                        *ssa.Function
	forceInit                                    *ssa.Function
	stack                                        []*ssa.Function
}

type frame struct {
	fn        *ssa.Function
	info      *fnInfo
	regs      []Value
	defers    []deferred
	panicking *goPanic
}

type deferred struct {
	call ssa.CallCommon
	fn   Value
	args []Value
}

type intrinsicFn func(vm *VM, fr *frame, args []Value, call *ssa.CallCommon) Value

type fnInfo struct {
	idx       map[ssa.Value]int
	n         int
	intrinsic intrinsicFn
	hasDefer  bool
	name      string
}

var fnInfos sync.Map // *ssa.Function -> *fnInfo

func getInfo(fn *ssa.Function) *fnInfo {
	if v, ok := fnInfos.Load(fn); ok {
		return v.(*fnInfo)
	}
	fi := &fnInfo{idx: map[ssa.Value]int{}, name: fn.String()}
	n := 0
	for _, p := range fn.Params {
		fi.idx[p] = n
		n++
	}
	for _, p := range fn.FreeVars {
		fi.idx[p] = n
		n++
	}
	for _, b := range fn.Blocks {
		for _, ins := range b.Instrs {
			if v, ok := ins.(ssa.Value); ok {
				fi.idx[v] = n
				n++
			}
			if _, ok := ins.(*ssa.Defer); ok {
				fi.hasDefer = true
			}
		}
	}
	fi.n = n
	fi.intrinsic = lookupIntrinsic(fn)
	v, _ := fnInfos.LoadOrStore(fn, fi)
	return v.(*fnInfo)
}

func NewVM(prog *ssa.Program, ts *TermStore, sol *Portfolio, cfg *Config, p pendingPath) *VM {
	vm := &VM{prog: prog, ts: ts, sol: sol, cfg: cfg, prefix: p.prefix, prefixModel: p.model,
		globals: map[*ssa.Global]*Obj{}, inited: map[*ssa.Package]bool{}, offCache: map[*types.Struct][]int{},
		strCache: map[string]Str{}, reached: map[string]bool{}, assertsHit: map[string]int{}, stubsHit: map[string]int{},
		fnsHit: map[*ssa.Function]int{}}
	if len(p.prefix) == 0 {
		vm.cur = Model{}
		vm.curValid = true
		ts.NewEvalEpoch()
	}
	return vm
}

// ---------- path condition, decisions, model

func (vm *VM) lit(c *Term, pos bool) *Term {
	if pos {
		return c
	}
	return vm.ts.Not(c)
}

func (vm *VM) inPrefix() bool { return vm.depth < len(vm.prefix) }

func (vm *VM) setModel(m Model) {
	vm.cur = m
	vm.curValid = true
	vm.ts.NewEvalEpoch()
}

func (vm *VM) ensureModel() {
	if vm.curValid {
		return
	}
	res, m := vm.sol.Check(vm.pc, nil, true, vm.inputs)
	switch res {
	case Sat:
		vm.setModel(m)
	case Unsat:
		panic(pathEnd{"infeasible", "path condition unsatisfiable"})
	default:
		vm.inconcl = append(vm.inconcl, "path condition satisfiability unknown")
		panic(pathEnd{"unknown", "path condition satisfiability unknown"})
	}
}

func (vm *VM) evalBool(c *Term) bool { return vm.ts.Eval(c, vm.cur) == 1 }

func (vm *VM) decide(cond *Term) bool { return vm.decideV(cond, 0) }

func (vm *VM) decideV(cond *Term, cand uint64) bool {
	if cond.op == OpConst {
		return cond.c == 1
	}
	if vm.depth < len(vm.prefix) {
		d := vm.prefix[vm.depth].b
		vm.depth++
		vm.pc = append(vm.pc, vm.lit(cond, d))
		if vm.depth == len(vm.prefix) && vm.prefixModel != nil {
			vm.setModel(vm.prefixModel)
		}
		return d
	}
	vm.ensureModel()
	s := vm.evalBool(cond)
	res, m := vm.sol.Check(vm.pc, vm.lit(cond, !s), true, vm.inputs)
	vm.decisions++
	if res != Unsat {
		alt := make([]dec, len(vm.prefix)+1)
		copy(alt, vm.prefix)
		alt[len(vm.prefix)] = dec{!s, cand}
		if res == Unknown {
			vm.inconcl = append(vm.inconcl, "branch feasibility unknown at "+vm.where())
			m = nil
		}
		vm.pending = append(vm.pending, pendingPath{alt, m})
	}
	vm.prefix = append(vm.prefix, dec{s, cand})
	vm.depth++
	vm.pc = append(vm.pc, vm.lit(cond, s))
	return s
}

func (vm *VM) assume(c *Term) {
	if c.op == OpConst {
		if c.c == 0 {
			panic(pathEnd{"assume", ""})
		}
		return
	}
	if vm.inPrefix() {
		vm.pc = append(vm.pc, c)
		return
	}
	vm.ensureModel()
	if !vm.evalBool(c) {
		res, m := vm.sol.Check(vm.pc, c, true, vm.inputs)
		switch res {
		case Sat:
			vm.setModel(m)
		case Unsat:
			panic(pathEnd{"assume", ""})
		default:
			vm.inconcl = append(vm.inconcl, "assumption feasibility unknown at "+vm.where())
			panic(pathEnd{"unknown", "assumption feasibility unknown"})
		}
	}
	vm.pc = append(vm.pc, c)
}

// obligation checks that c holds on every input reaching this point.
func (vm *VM) obligation(c *Term, kind, label string) {
	vm.assertsHit[label]++
	if vm.inPrefix() {
		vm.assertsSkipped++
		return
	}
	if c.op == OpConst && c.c == 1 {
		vm.assertsFolded++
		return
	}
	vm.ensureModel()
	var m Model
	if !vm.evalBool(c) {
		m = vm.cur
	} else {
		vm.assertsSolver++
		res, mm := vm.sol.Check(vm.pc, vm.ts.Not(c), true, vm.inputs)
		switch res {
		case Unsat:
			return
		case Unknown:
			vm.inconcl = append(vm.inconcl, fmt.Sprintf("obligation %q undecided at %s", label, vm.where()))
			return
		}
		m = mm
		if os.Getenv("SYMGO_DEBUGCEX") != "" {
			vm.ts.NewEvalEpoch()
			fmt.Fprintf(os.Stderr, "DEBUGCEX label=%s eval(assert)=%d under solver model; pc entries violated:", label, vm.ts.Eval(c, m))
			for i, p := range vm.pc {
				if vm.ts.Eval(p, m) != 1 {
					fmt.Fprintf(os.Stderr, " #%d", i)
				}
			}
			fmt.Fprintln(os.Stderr)
			fmt.Fprint(os.Stderr, "DEBUGCEX observed:")
			for _, o := range vm.observed {
				fmt.Fprintf(os.Stderr, " %d", vm.ts.Eval(o, m))
			}
			fmt.Fprintln(os.Stderr)
		}
	}
	vm.fail(kind, label, m)
}

func (vm *VM) fail(kind, label string, m Model) {
	vm.violation = &Violation{Kind: kind, Label: label, Model: m, Tape: vm.tape(m), Prefix: append([]dec{}, vm.prefix...), Where: vm.where()}
	panic(pathEnd{"violation", label})
}

func (vm *VM) tape(m Model) []uint64 {
	out := make([]uint64, len(vm.inputs))
	for i, v := range vm.inputs {
		out[i] = m[v.id]
		if v.w > 0 {
			out[i] &= mask(v.w)
		}
	}
	return out
}

func (vm *VM) where() string {
	if vm.curFn == nil {
		return "?"
	}
	pos := vm.prog.Fset.Position(vm.lastPos)
	return fmt.Sprintf("%s (%s:%d)", vm.curFn.String(), shortFile(pos.Filename), pos.Line)
}

func shortFile(f string) string {
	if i := strings.LastIndex(f, "/"); i >= 0 {
		return f[i+1:]
	}
	return f
}

var concreteTape []uint64 // development aid: run the VM on fixed input values

func (vm *VM) newInput(w uint8, name string) *Term {
	if concreteTape != nil {
		i := len(vm.inputs)
		vm.inputs = append(vm.inputs, vm.ts.Var(w, i, name))
		var v uint64
		if i < len(concreteTape) {
			v = concreteTape[i]
		}
		if w == 0 {
			return vm.ts.Bool(v&1 == 1)
		}
		return vm.ts.BV(w, v)
	}
	t := vm.ts.Var(w, len(vm.inputs), fmt.Sprintf("%s#%d", name, len(vm.inputs)))
	vm.inputs = append(vm.inputs, t)
	return t
}

// concreteInt turns a term into a concrete value by forking over its feasible values.
func (vm *VM) concreteInt(v Value) int {
	t := v.(*Term)
	n := 0
	for t.op != OpConst {
		if n >= vm.cfg.MaxConcretise {
			panic(pathEnd{"unsupported", "more than MaxConcretise feasible values for a symbolic length/index at " + vm.where()})
		}
		n++
		var val uint64
		if vm.inPrefix() {
			val = vm.prefix[vm.depth].v // the candidate recorded when this decision was first made
		} else {
			vm.ensureModel()
			val = vm.ts.Eval(t, vm.cur)
		}
		c := vm.ts.BV(t.w, val)
		if vm.decideV(vm.ts.Eq(t, c), val) {
			t = c
		}
	}
	return int(sext64(t.c, t.w))
}

func (vm *VM) goPanicf(format string, a ...interface{}) {
	panic(goPanic{msg: fmt.Sprintf(format, a...) + " at " + vm.where()})
}
