package main

// Hash-consed SMT terms (Bool and bit-vectors up to 64 bits) with constant folding,
// local simplification, unsigned interval tracking, SMT-LIB2 printing and a concrete evaluator.

import (
	"fmt"
	"math/bits"
	"sort"
	"strings"
)

type Op uint8

const (
	OpConst Op = iota
	OpVar
	OpNot
	OpAnd // n-ary bool
	OpOr  // n-ary bool
	OpEq
	OpIte
	OpAdd
	OpSub
	OpMul
	OpUDiv
	OpURem
	OpSDiv
	OpSRem
	OpBAnd
	OpBOr
	OpBXor
	OpBNot
	OpShl
	OpLShr
	OpAShr
	OpUlt
	OpUle
	OpSlt
	OpSle
	OpConcat
	OpExtract // c = hi<<8 | lo
	OpZExt    // c = extra bits
	OpSExt    // c = extra bits
)

var opName = [...]string{"const", "var", "not", "and", "or", "=", "ite", "bvadd", "bvsub", "bvmul", "bvudiv", "bvurem", "bvsdiv", "bvsrem",
	"bvand", "bvor", "bvxor", "bvnot", "bvshl", "bvlshr", "bvashr", "bvult", "bvule", "bvslt", "bvsle", "concat", "extract", "zext", "sext"}

type Term struct {
	id     int32
	op     Op
	w      uint8 // 0 = Bool
	c      uint64
	args   []*Term
	lo, hi uint64 // unsigned interval (bit-vectors), [0,1] for bool
	name   string // for vars
}

const maxTerms = 5_000_000

type tkey struct {
	op         Op
	w          uint8
	c          uint64
	a0, a1, a2 int32
}

type TermStore struct {
	hc            map[tkey]*Term
	hcN           map[string]*Term
	terms         []*Term
	vars          []*Term
	tTrue, tFalse *Term
	// evaluation scratch
	evalVal   []uint64
	evalStamp []uint32
	evalEpoch uint32
}

func NewTermStore() *TermStore {
	ts := &TermStore{hc: map[tkey]*Term{}, hcN: map[string]*Term{}}
	ts.tFalse = ts.mk(OpConst, 0, 0)
	ts.tTrue = ts.mk(OpConst, 0, 1)
	return ts
}

func mask(w uint8) uint64 {
	if w >= 64 {
		return ^uint64(0)
	}
	return (uint64(1) << w) - 1
}

func sext64(c uint64, w uint8) int64 {
	if w >= 64 || w == 0 {
		return int64(c)
	}
	if c&(1<<(w-1)) != 0 {
		return int64(c | ^mask(w))
	}
	return int64(c)
}

func (ts *TermStore) mk(op Op, w uint8, c uint64, args ...*Term) *Term {
	var t *Term
	if len(args) <= 3 {
		k := tkey{op: op, w: w, c: c, a0: -1, a1: -1, a2: -1}
		if len(args) > 0 {
			k.a0 = args[0].id
		}
		if len(args) > 1 {
			k.a1 = args[1].id
		}
		if len(args) > 2 {
			k.a2 = args[2].id
		}
		if t, ok := ts.hc[k]; ok {
			return t
		}
		t = &Term{op: op, w: w, c: c, args: args}
		ts.hc[k] = t
	} else {
		var sb strings.Builder
		fmt.Fprintf(&sb, "%d|%d|%d", op, w, c)
		for _, a := range args {
			fmt.Fprintf(&sb, ",%d", a.id)
		}
		k := sb.String()
		if t, ok := ts.hcN[k]; ok {
			return t
		}
		t = &Term{op: op, w: w, c: c, args: args}
		ts.hcN[k] = t
	}
	if len(ts.terms) >= maxTerms {
		panic(pathEnd{"budget", "term budget exceeded (instance too large for this engine)"})
	}
	t.id = int32(len(ts.terms))
	ts.terms = append(ts.terms, t)
	ts.setRange(t)
	return t
}

func (t *Term) IsConst() bool { return t.op == OpConst }
func (t *Term) IsTrue() bool  { return t.op == OpConst && t.w == 0 && t.c == 1 }
func (t *Term) IsFalse() bool { return t.op == OpConst && t.w == 0 && t.c == 0 }

func (ts *TermStore) BV(w uint8, c uint64) *Term {
	if w == 0 {
		panic("BV with width 0")
	}
	return ts.mk(OpConst, w, c&mask(w))
}
func (ts *TermStore) Bool(b bool) *Term {
	if b {
		return ts.tTrue
	}
	return ts.tFalse
}

// Var returns the input variable number idx of width w (the same term on every re-execution of a path prefix).
func (ts *TermStore) Var(w uint8, idx int, name string) *Term {
	n := len(ts.terms)
	t := ts.mk(OpVar, w, uint64(idx))
	if len(ts.terms) > n {
		t.name = name
		ts.vars = append(ts.vars, t)
	}
	return t
}

func (ts *TermStore) setRange(t *Term) {
	if t.w == 0 {
		t.lo, t.hi = 0, 1
		if t.op == OpConst {
			t.lo, t.hi = t.c, t.c
		}
		return
	}
	m := mask(t.w)
	t.lo, t.hi = 0, m
	a := t.args
	switch t.op {
	case OpConst:
		t.lo, t.hi = t.c, t.c
	case OpZExt:
		t.lo, t.hi = a[0].lo, a[0].hi
	case OpExtract:
		lo := uint8(t.c & 0xff)
		hiBit := uint8(t.c >> 8)
		if a[0].hi>>lo <= m {
			t.lo, t.hi = a[0].lo>>lo, a[0].hi>>lo
		} else if hiBit < 63 && a[0].lo>>(hiBit+1) == a[0].hi>>(hiBit+1) {
			// the cut-off high part is the same over the whole interval: the kept bits are monotone
			km := (uint64(1) << (hiBit + 1)) - 1
			t.lo, t.hi = (a[0].lo&km)>>lo, (a[0].hi&km)>>lo
		}
	case OpAdd:
		h, carry := bits.Add64(a[0].hi, a[1].hi, 0)
		if carry == 0 && h <= m {
			t.lo, t.hi = a[0].lo+a[1].lo, h
		} else if a[1].op == OpConst && a[1].c > m/2 && a[0].lo >= (m-a[1].c)+1 {
			k := (m - a[1].c) + 1 // x + c == x - k (mod 2^w)
			t.lo, t.hi = a[0].lo-k, a[0].hi-k
		}
	case OpSub:
		if a[0].lo >= a[1].hi {
			t.lo, t.hi = a[0].lo-a[1].hi, a[0].hi-a[1].lo
		}
	case OpMul:
		h, l := bits.Mul64(a[0].hi, a[1].hi)
		if h == 0 && l <= m {
			t.lo, t.hi = a[0].lo*a[1].lo, l
		}
	case OpBAnd:
		t.lo, t.hi = 0, a[0].hi
		if a[1].hi < t.hi {
			t.hi = a[1].hi
		}
	case OpBOr, OpBXor:
		mx := a[0].hi
		if a[1].hi > mx {
			mx = a[1].hi
		}
		if n := bits.Len64(mx); n < 64 {
			t.hi = (uint64(1) << uint(n)) - 1
		}
		if t.op == OpBOr {
			t.lo = a[0].lo
			if a[1].lo > t.lo {
				t.lo = a[1].lo
			}
		}
	case OpLShr:
		if a[1].op == OpConst {
			if a[1].c >= 64 {
				t.lo, t.hi = 0, 0
			} else {
				t.lo, t.hi = a[0].lo>>a[1].c, a[0].hi>>a[1].c
			}
		} else {
			t.hi = a[0].hi
		}
	case OpShl:
		if a[1].op == OpConst && a[1].c < 64 {
			k := a[1].c
			if bits.Len64(a[0].hi)+int(k) <= int(t.w) {
				t.lo, t.hi = a[0].lo<<k, a[0].hi<<k
			}
		}
	case OpUDiv:
		if a[1].lo > 0 {
			t.lo, t.hi = a[0].lo/a[1].hi, a[0].hi/a[1].lo
		}
	case OpURem:
		if a[1].lo > 0 {
			t.hi = a[1].hi - 1
			if a[0].hi < t.hi {
				t.hi = a[0].hi
			}
		}
	case OpIte:
		t.lo, t.hi = a[1].lo, a[1].hi
		if a[2].lo < t.lo {
			t.lo = a[2].lo
		}
		if a[2].hi > t.hi {
			t.hi = a[2].hi
		}
	case OpConcat:
		k := a[1].w
		t.lo = a[0].lo<<k | a[1].lo
		t.hi = a[0].hi<<k | a[1].hi
		if a[0].lo != a[0].hi {
			t.lo = a[0].lo << k
			t.hi = a[0].hi<<k | mask(k)
		}
	}
}

// ---------- constructors with simplification

func (ts *TermStore) Not(t *Term) *Term {
	if t.op == OpConst {
		return ts.Bool(t.c == 0)
	}
	if t.op == OpNot {
		return t.args[0]
	}
	return ts.mk(OpNot, 0, 0, t)
}

func (ts *TermStore) nary(op Op, x, y *Term) *Term {
	var args []*Term
	add := func(t *Term) {
		if t.op == op {
			args = append(args, t.args...)
		} else {
			args = append(args, t)
		}
	}
	add(x)
	add(y)
	// dedupe, keep order
	out := args[:0:0]
	seen := map[int32]bool{}
	for _, a := range args {
		if !seen[a.id] {
			seen[a.id] = true
			out = append(out, a)
		}
	}
	for _, a := range out {
		if a.op == OpNot && seen[a.args[0].id] {
			return ts.Bool(op == OpOr)
		}
	}
	if len(out) == 1 {
		return out[0]
	}
	sort.Slice(out, func(i, j int) bool { return out[i].id < out[j].id })
	return ts.mk(op, 0, 0, out...)
}

func (ts *TermStore) And(x, y *Term) *Term {
	if x.op == OpConst {
		if x.c == 0 {
			return x
		}
		return y
	}
	if y.op == OpConst {
		if y.c == 0 {
			return y
		}
		return x
	}
	if x == y {
		return x
	}
	return ts.nary(OpAnd, x, y)
}

func (ts *TermStore) Or(x, y *Term) *Term {
	if x.op == OpConst {
		if x.c == 1 {
			return x
		}
		return y
	}
	if y.op == OpConst {
		if y.c == 1 {
			return y
		}
		return x
	}
	if x == y {
		return x
	}
	return ts.nary(OpOr, x, y)
}

func (ts *TermStore) Ite(c, a, b *Term) *Term {
	if c.op == OpConst {
		if c.c == 1 {
			return a
		}
		return b
	}
	if a == b {
		return a
	}
	if a.w == 0 {
		if a.IsTrue() && b.IsFalse() {
			return c
		}
		if a.IsFalse() && b.IsTrue() {
			return ts.Not(c)
		}
		if a.IsTrue() {
			return ts.Or(c, b)
		}
		if a.IsFalse() {
			return ts.And(ts.Not(c), b)
		}
		if b.IsTrue() {
			return ts.Or(ts.Not(c), a)
		}
		if b.IsFalse() {
			return ts.And(c, a)
		}
	}
	if c.op == OpNot {
		return ts.mk(OpIte, a.w, 0, c.args[0], b, a)
	}
	return ts.mk(OpIte, a.w, 0, c, a, b)
}

func (ts *TermStore) Eq(x, y *Term) *Term {
	if x == y {
		return ts.tTrue
	}
	if x.w != y.w {
		panic(fmt.Sprintf("Eq width mismatch %d %d", x.w, y.w))
	}
	if x.op == OpConst && y.op == OpConst {
		return ts.Bool(x.c == y.c)
	}
	if x.w == 0 {
		if x.op == OpConst {
			x, y = y, x
		}
		if y.op == OpConst {
			if y.c == 1 {
				return x
			}
			return ts.Not(x)
		}
	} else {
		if x.hi < y.lo || y.hi < x.lo {
			return ts.tFalse
		}
		// ite with constant arms compared to a constant
		if x.op == OpConst {
			x, y = y, x
		}
		if y.op == OpConst && x.op == OpIte && x.args[1].op == OpConst && x.args[2].op == OpConst {
			e1, e2 := x.args[1].c == y.c, x.args[2].c == y.c
			switch {
			case e1 && e2:
				return ts.tTrue
			case e1:
				return x.args[0]
			case e2:
				return ts.Not(x.args[0])
			default:
				return ts.tFalse
			}
		}
		if y.op == OpConst && x.op == OpZExt && y.c <= mask(x.args[0].w) {
			return ts.Eq(x.args[0], ts.BV(x.args[0].w, y.c))
		}
	}
	if x.id > y.id {
		x, y = y, x
	}
	return ts.mk(OpEq, 0, 0, x, y)
}

func (ts *TermStore) Ult(x, y *Term) *Term {
	if x == y {
		return ts.tFalse
	}
	if x.hi < y.lo {
		return ts.tTrue
	}
	if x.lo >= y.hi {
		return ts.tFalse
	}
	if x.op == OpZExt && y.op == OpZExt && x.args[0].w == y.args[0].w {
		return ts.Ult(x.args[0], y.args[0])
	}
	return ts.mk(OpUlt, 0, 0, x, y)
}
func (ts *TermStore) Ule(x, y *Term) *Term {
	if x == y {
		return ts.tTrue
	}
	if x.hi <= y.lo {
		return ts.tTrue
	}
	if x.lo > y.hi {
		return ts.tFalse
	}
	if x.op == OpZExt && y.op == OpZExt && x.args[0].w == y.args[0].w {
		return ts.Ule(x.args[0], y.args[0])
	}
	return ts.mk(OpUle, 0, 0, x, y)
}
func (ts *TermStore) signedSmall(x *Term) bool {
	// true if the sign bit is provably clear
	return x.hi < uint64(1)<<(x.w-1)
}
func (ts *TermStore) Slt(x, y *Term) *Term {
	if x == y {
		return ts.tFalse
	}
	if x.op == OpConst && y.op == OpConst {
		return ts.Bool(sext64(x.c, x.w) < sext64(y.c, y.w))
	}
	if ts.signedSmall(x) && ts.signedSmall(y) {
		return ts.Ult(x, y)
	}
	return ts.mk(OpSlt, 0, 0, x, y)
}
func (ts *TermStore) Sle(x, y *Term) *Term {
	if x == y {
		return ts.tTrue
	}
	if x.op == OpConst && y.op == OpConst {
		return ts.Bool(sext64(x.c, x.w) <= sext64(y.c, y.w))
	}
	if ts.signedSmall(x) && ts.signedSmall(y) {
		return ts.Ule(x, y)
	}
	return ts.mk(OpSle, 0, 0, x, y)
}

func (ts *TermStore) Extract(hi, lo uint8, x *Term) *Term {
	w := hi - lo + 1
	if lo == 0 && w == x.w {
		return x
	}
	if x.op == OpConst {
		return ts.BV(w, x.c>>lo)
	}
	switch x.op {
	case OpExtract:
		ilo := uint8(x.c & 0xff)
		return ts.Extract(hi+ilo, lo+ilo, x.args[0])
	case OpZExt:
		iw := x.args[0].w
		if hi < iw {
			return ts.Extract(hi, lo, x.args[0])
		}
		if lo >= iw {
			return ts.BV(w, 0)
		}
		return ts.ZExt(ts.Extract(iw-1, lo, x.args[0]), w)
	case OpSExt:
		iw := x.args[0].w
		if hi < iw {
			return ts.Extract(hi, lo, x.args[0])
		}
	case OpConcat:
		lw := x.args[1].w
		if hi < lw {
			return ts.Extract(hi, lo, x.args[1])
		}
		if lo >= lw {
			return ts.Extract(hi-lw, lo-lw, x.args[0])
		}
	case OpBAnd, OpBOr, OpBXor:
		if x.args[0].op == OpConst || x.args[1].op == OpConst {
			a, b := ts.Extract(hi, lo, x.args[0]), ts.Extract(hi, lo, x.args[1])
			switch x.op {
			case OpBAnd:
				return ts.BAnd(a, b)
			case OpBOr:
				return ts.BOr(a, b)
			default:
				return ts.BXor(a, b)
			}
		}
	case OpIte:
		if x.args[1].op == OpConst || x.args[2].op == OpConst {
			return ts.Ite(x.args[0], ts.Extract(hi, lo, x.args[1]), ts.Extract(hi, lo, x.args[2]))
		}
	}
	return ts.mk(OpExtract, w, uint64(hi)<<8|uint64(lo), x)
}

func (ts *TermStore) ZExt(x *Term, w uint8) *Term {
	if w == x.w {
		return x
	}
	if w < x.w {
		return ts.Extract(w-1, 0, x)
	}
	if x.op == OpConst {
		return ts.BV(w, x.c)
	}
	if x.op == OpZExt {
		return ts.ZExt(x.args[0], w)
	}
	// zext(a - b) == zext(a) - zext(b) when a >= b for all values (no borrow): lets start + (last-start) cancel after widening
	if x.op == OpSub && x.args[0].lo >= x.args[1].hi {
		return ts.Sub(ts.ZExt(x.args[0], w), ts.ZExt(x.args[1], w))
	}
	return ts.mk(OpZExt, w, uint64(w-x.w), x)
}

func (ts *TermStore) SExt(x *Term, w uint8) *Term {
	if w == x.w {
		return x
	}
	if w < x.w {
		return ts.Extract(w-1, 0, x)
	}
	if x.op == OpConst {
		return ts.BV(w, uint64(sext64(x.c, x.w)))
	}
	if ts.signedSmall(x) {
		return ts.ZExt(x, w)
	}
	return ts.mk(OpSExt, w, uint64(w-x.w), x)
}

func (ts *TermStore) Concat(hi, lo *Term) *Term {
	w := hi.w + lo.w
	if w > 64 {
		panic("concat wider than 64")
	}
	if hi.op == OpConst && lo.op == OpConst {
		return ts.BV(w, hi.c<<lo.w|lo.c)
	}
	if hi.op == OpConst && hi.c == 0 {
		return ts.ZExt(lo, w)
	}
	// adjacent extracts of the same term
	if hi.op == OpExtract && lo.op == OpExtract && hi.args[0] == lo.args[0] {
		hlo := uint8(hi.c & 0xff)
		lhi := uint8(lo.c >> 8)
		if hlo == lhi+1 {
			return ts.Extract(uint8(hi.c>>8), uint8(lo.c&0xff), hi.args[0])
		}
	}
	// extract(hi..k, x) ++ low bits of x where low is x itself truncated (x narrower handled by Extract rules)
	if hi.op == OpExtract && hi.args[0] == lo && uint8(hi.c&0xff) == lo.w {
		return ts.Extract(uint8(hi.c>>8), 0, lo)
	}
	return ts.mk(OpConcat, w, 0, hi, lo)
}

func (ts *TermStore) BNot(x *Term) *Term {
	if x.op == OpConst {
		return ts.BV(x.w, ^x.c)
	}
	if x.op == OpBNot {
		return x.args[0]
	}
	return ts.mk(OpBNot, x.w, 0, x)
}

func (ts *TermStore) BAnd(x, y *Term) *Term {
	if x.op == OpConst {
		x, y = y, x
	}
	if y.op == OpConst {
		if x.op == OpConst {
			return ts.BV(x.w, x.c&y.c)
		}
		if y.c == 0 {
			return y
		}
		if y.c == mask(x.w) {
			return x
		}
		// mask covering the whole interval of x
		if n := bits.Len64(x.hi); n < 64 && y.c&((1<<uint(n))-1) == (1<<uint(n))-1 {
			return x
		}
	}
	if x == y {
		return x
	}
	return ts.mk(OpBAnd, x.w, 0, x, y)
}
func (ts *TermStore) BOr(x, y *Term) *Term {
	if x.op == OpConst {
		x, y = y, x
	}
	if y.op == OpConst {
		if x.op == OpConst {
			return ts.BV(x.w, x.c|y.c)
		}
		if y.c == 0 {
			return x
		}
		if y.c == mask(x.w) {
			return y
		}
	}
	if x == y {
		return x
	}
	return ts.mk(OpBOr, x.w, 0, x, y)
}
func (ts *TermStore) BXor(x, y *Term) *Term {
	if x.op == OpConst {
		x, y = y, x
	}
	if y.op == OpConst {
		if x.op == OpConst {
			return ts.BV(x.w, x.c^y.c)
		}
		if y.c == 0 {
			return x
		}
		if y.c == mask(x.w) {
			return ts.BNot(x)
		}
	}
	if x == y {
		return ts.BV(x.w, 0)
	}
	return ts.mk(OpBXor, x.w, 0, x, y)
}

func (ts *TermStore) Add(x, y *Term) *Term {
	if x.op == OpConst {
		x, y = y, x
	}
	if y.op == OpConst {
		if x.op == OpConst {
			return ts.BV(x.w, x.c+y.c)
		}
		if y.c == 0 {
			return x
		}
		if x.op == OpAdd && x.args[1].op == OpConst {
			return ts.Add(x.args[0], ts.BV(x.w, x.args[1].c+y.c))
		}
	}
	// x + (z - x) == z (mod 2^w): run containers store (start, last-start) and recompute last = start+length
	if y.op == OpSub && y.args[1] == x {
		return y.args[0]
	}
	if x.op == OpSub && x.args[1] == y {
		return x.args[0]
	}
	return ts.mk(OpAdd, x.w, 0, x, y)
}
func (ts *TermStore) Sub(x, y *Term) *Term {
	if y.op == OpConst {
		if x.op == OpConst {
			return ts.BV(x.w, x.c-y.c)
		}
		if y.c == 0 {
			return x
		}
		return ts.Add(x, ts.BV(x.w, -y.c))
	}
	if x == y {
		return ts.BV(x.w, 0)
	}
	// (y + z) - y == z (mod 2^w)
	if x.op == OpAdd {
		if x.args[0] == y {
			return x.args[1]
		}
		if x.args[1] == y {
			return x.args[0]
		}
	}
	return ts.mk(OpSub, x.w, 0, x, y)
}
func (ts *TermStore) Mul(x, y *Term) *Term {
	if x.op == OpConst {
		x, y = y, x
	}
	if y.op == OpConst {
		if x.op == OpConst {
			return ts.BV(x.w, x.c*y.c)
		}
		if y.c == 0 {
			return y
		}
		if y.c == 1 {
			return x
		}
		if y.c&(y.c-1) == 0 {
			return ts.Shl(x, ts.BV(x.w, uint64(bits.TrailingZeros64(y.c))))
		}
	}
	return ts.mk(OpMul, x.w, 0, x, y)
}

// shift count y must already have the width of x (see alignShift).
func (ts *TermStore) Shl(x, y *Term) *Term {
	if y.op == OpConst {
		if y.c == 0 {
			return x
		}
		if y.c >= uint64(x.w) {
			return ts.BV(x.w, 0)
		}
		if x.op == OpConst {
			return ts.BV(x.w, x.c<<y.c)
		}
	}
	if x.op == OpConst && x.c == 0 {
		return x
	}
	return ts.mk(OpShl, x.w, 0, x, y)
}
func (ts *TermStore) LShr(x, y *Term) *Term {
	if y.op == OpConst {
		if y.c == 0 {
			return x
		}
		if y.c >= uint64(x.w) {
			return ts.BV(x.w, 0)
		}
		if x.op == OpConst {
			return ts.BV(x.w, x.c>>y.c)
		}
		// lshr by constant = zext(extract)
		return ts.ZExt(ts.Extract(x.w-1, uint8(y.c), x), x.w)
	}
	if x.op == OpConst && x.c == 0 {
		return x
	}
	return ts.mk(OpLShr, x.w, 0, x, y)
}
func (ts *TermStore) AShr(x, y *Term) *Term {
	if ts.signedSmall(x) {
		return ts.LShr(x, y)
	}
	if y.op == OpConst {
		if y.c == 0 {
			return x
		}
		k := y.c
		if k >= uint64(x.w) {
			k = uint64(x.w - 1)
		}
		if x.op == OpConst {
			return ts.BV(x.w, uint64(sext64(x.c, x.w)>>k))
		}
		return ts.SExt(ts.Extract(x.w-1, uint8(k), x), x.w)
	}
	return ts.mk(OpAShr, x.w, 0, x, y)
}

// Division family. Go semantics for the non-panicking case (divisor != 0 is checked by the VM).
func (ts *TermStore) UDiv(x, y *Term) *Term {
	if y.op == OpConst && y.c != 0 {
		if x.op == OpConst {
			return ts.BV(x.w, x.c/y.c)
		}
		if y.c&(y.c-1) == 0 {
			return ts.LShr(x, ts.BV(x.w, uint64(bits.TrailingZeros64(y.c))))
		}
	}
	return ts.mk(OpUDiv, x.w, 0, x, y)
}
func (ts *TermStore) URem(x, y *Term) *Term {
	if y.op == OpConst && y.c != 0 {
		if x.op == OpConst {
			return ts.BV(x.w, x.c%y.c)
		}
		if y.c&(y.c-1) == 0 {
			return ts.BAnd(x, ts.BV(x.w, y.c-1))
		}
		if x.hi < y.c {
			return x
		}
	}
	return ts.mk(OpURem, x.w, 0, x, y)
}
func (ts *TermStore) SDiv(x, y *Term) *Term {
	w := x.w
	if x.op == OpConst && y.op == OpConst && y.c != 0 {
		a, b := sext64(x.c, w), sext64(y.c, w)
		if b == -1 {
			return ts.BV(w, uint64(-a))
		}
		return ts.BV(w, uint64(a/b))
	}
	if ts.signedSmall(x) && ts.signedSmall(y) {
		return ts.UDiv(x, y)
	}
	if y.op == OpConst && y.c != 0 && y.c&(y.c-1) == 0 && sext64(y.c, w) > 0 {
		k := uint64(bits.TrailingZeros64(y.c))
		if k == 0 {
			return x
		}
		sign := ts.AShr(x, ts.BV(w, uint64(w-1)))
		bias := ts.LShr(sign, ts.BV(w, uint64(w)-k))
		return ts.AShr(ts.Add(x, bias), ts.BV(w, k))
	}
	return ts.mk(OpSDiv, w, 0, x, y)
}
func (ts *TermStore) SRem(x, y *Term) *Term {
	w := x.w
	if x.op == OpConst && y.op == OpConst && y.c != 0 {
		a, b := sext64(x.c, w), sext64(y.c, w)
		if b == -1 {
			return ts.BV(w, 0)
		}
		return ts.BV(w, uint64(a%b))
	}
	if ts.signedSmall(x) && ts.signedSmall(y) {
		return ts.URem(x, y)
	}
	if y.op == OpConst && y.c != 0 && y.c&(y.c-1) == 0 && sext64(y.c, w) > 0 {
		q := ts.SDiv(x, y)
		return ts.Sub(x, ts.Shl(q, ts.BV(w, uint64(bits.TrailingZeros64(y.c)))))
	}
	return ts.mk(OpSRem, w, 0, x, y)
}

// alignShift converts a Go shift count (any unsigned width) to the width of the shifted operand,
// saturating counts that do not fit.
func (ts *TermStore) alignShift(cnt *Term, w uint8) *Term {
	if cnt.w == w {
		return cnt
	}
	if cnt.w < w {
		return ts.ZExt(cnt, w)
	}
	if cnt.op == OpConst {
		if cnt.c >= uint64(w) {
			return ts.BV(w, uint64(w))
		}
		return ts.BV(w, cnt.c)
	}
	if cnt.hi <= mask(w) {
		return ts.Extract(w-1, 0, cnt)
	}
	big := ts.Not(ts.Ult(cnt, ts.BV(cnt.w, uint64(w))))
	return ts.Ite(big, ts.BV(w, uint64(w)), ts.Extract(w-1, 0, cnt))
}

// BoolToBV / BVToBool for byte-level views of bool cells.
func (ts *TermStore) BoolToBV(b *Term, w uint8) *Term {
	return ts.Ite(b, ts.BV(w, 1), ts.BV(w, 0))
}

// popcount as a sum of bits (used for the intrinsic model of TrailingZeros / Len).
func (ts *TermStore) PopCount(x *Term) *Term {
	w := x.w
	acc := ts.BV(w, 0)
	for i := uint8(0); i < w; i++ {
		acc = ts.Add(acc, ts.ZExt(ts.Extract(i, i, x), w))
	}
	return acc
}

// ---------- printing

func (t *Term) sortName() string {
	if t.w == 0 {
		return "Bool"
	}
	return fmt.Sprintf("(_ BitVec %d)", t.w)
}

func (t *Term) ref() string {
	switch t.op {
	case OpConst:
		if t.w == 0 {
			if t.c == 1 {
				return "true"
			}
			return "false"
		}
		return fmt.Sprintf("(_ bv%d %d)", t.c, t.w)
	case OpVar:
		return fmt.Sprintf("v%dw%d", t.c, t.w)
	}
	return fmt.Sprintf("t%d", t.id)
}

func (t *Term) body() string {
	as := make([]string, len(t.args))
	for i, a := range t.args {
		as[i] = a.ref()
	}
	switch t.op {
	case OpExtract:
		return fmt.Sprintf("((_ extract %d %d) %s)", t.c>>8, t.c&0xff, as[0])
	case OpZExt:
		return fmt.Sprintf("((_ zero_extend %d) %s)", t.c, as[0])
	case OpSExt:
		return fmt.Sprintf("((_ sign_extend %d) %s)", t.c, as[0])
	}
	return "(" + opName[t.op] + " " + strings.Join(as, " ") + ")"
}

// String renders a term as a nested expression (debugging / evidence samples), depth-limited.
func (t *Term) String() string { return t.str(6) }
func (t *Term) str(d int) string {
	switch t.op {
	case OpConst:
		if t.w == 0 {
			return fmt.Sprint(t.c == 1)
		}
		return fmt.Sprintf("%d", t.c)
	case OpVar:
		return t.name
	}
	if d == 0 {
		return "…"
	}
	as := make([]string, len(t.args))
	for i, a := range t.args {
		as[i] = a.str(d - 1)
	}
	n := opName[t.op]
	if t.op == OpExtract {
		n = fmt.Sprintf("extract[%d:%d]", t.c>>8, t.c&0xff)
	}
	return "(" + n + " " + strings.Join(as, " ") + ")"
}

// ---------- evaluation under a model (vars not in the model are 0)

type Model map[int32]uint64 // var term id -> value

func (ts *TermStore) Eval(t *Term, m Model) uint64 {
	if len(ts.evalVal) < len(ts.terms) {
		n := len(ts.terms) + len(ts.terms)/2 + 16
		nv := make([]uint64, n)
		ns := make([]uint32, n)
		copy(nv, ts.evalVal)
		copy(ns, ts.evalStamp)
		ts.evalVal, ts.evalStamp = nv, ns
	}
	return ts.eval(t, m)
}

func (ts *TermStore) NewEvalEpoch() { ts.evalEpoch++ }

func (ts *TermStore) eval(t *Term, m Model) uint64 {
	if t.op == OpConst {
		return t.c
	}
	if ts.evalStamp[t.id] == ts.evalEpoch {
		return ts.evalVal[t.id]
	}
	var r uint64
	a := t.args
	w := t.w
	ev := func(i int) uint64 { return ts.eval(a[i], m) }
	switch t.op {
	case OpVar:
		r = m[t.id] & mask(w)
		if w == 0 {
			r = m[t.id] & 1
		}
	case OpNot:
		r = 1 - ev(0)
	case OpAnd:
		r = 1
		for i := range a {
			if ev(i) == 0 {
				r = 0
				break
			}
		}
	case OpOr:
		r = 0
		for i := range a {
			if ev(i) == 1 {
				r = 1
				break
			}
		}
	case OpEq:
		r = b2u(ev(0) == ev(1))
	case OpIte:
		if ev(0) == 1 {
			r = ev(1)
		} else {
			r = ev(2)
		}
	case OpAdd:
		r = ev(0) + ev(1)
	case OpSub:
		r = ev(0) - ev(1)
	case OpMul:
		r = ev(0) * ev(1)
	case OpUDiv:
		if d := ev(1); d == 0 {
			r = mask(w)
		} else {
			r = ev(0) / d
		}
	case OpURem:
		if d := ev(1); d == 0 {
			r = ev(0)
		} else {
			r = ev(0) % d
		}
	case OpSDiv:
		x, y := sext64(ev(0), w), sext64(ev(1), w)
		switch {
		case y == 0:
			if x < 0 {
				r = 1
			} else {
				r = mask(w)
			}
		case y == -1:
			r = uint64(-x)
		default:
			r = uint64(x / y)
		}
	case OpSRem:
		x, y := sext64(ev(0), w), sext64(ev(1), w)
		switch {
		case y == 0:
			r = uint64(x)
		case y == -1:
			r = 0
		default:
			r = uint64(x % y)
		}
	case OpBAnd:
		r = ev(0) & ev(1)
	case OpBOr:
		r = ev(0) | ev(1)
	case OpBXor:
		r = ev(0) ^ ev(1)
	case OpBNot:
		r = ^ev(0)
	case OpShl:
		if s := ev(1); s >= uint64(w) {
			r = 0
		} else {
			r = ev(0) << s
		}
	case OpLShr:
		if s := ev(1); s >= uint64(w) {
			r = 0
		} else {
			r = ev(0) >> s
		}
	case OpAShr:
		s := ev(1)
		if s >= uint64(w) {
			s = uint64(w - 1)
		}
		r = uint64(sext64(ev(0), w) >> s)
	case OpUlt:
		r = b2u(ev(0) < ev(1))
	case OpUle:
		r = b2u(ev(0) <= ev(1))
	case OpSlt:
		r = b2u(sext64(ev(0), a[0].w) < sext64(ev(1), a[1].w))
	case OpSle:
		r = b2u(sext64(ev(0), a[0].w) <= sext64(ev(1), a[1].w))
	case OpConcat:
		r = ev(0)<<a[1].w | ev(1)
	case OpExtract:
		r = ev(0) >> (t.c & 0xff)
	case OpZExt:
		r = ev(0)
	case OpSExt:
		r = uint64(sext64(ev(0), a[0].w))
	default:
		panic("eval op")
	}
	if w > 0 {
		r &= mask(w)
	}
	ts.evalStamp[t.id] = ts.evalEpoch
	ts.evalVal[t.id] = r
	return r
}

func b2u(b bool) uint64 {
	if b {
		return 1
	}
	return 0
}
