package main

// A racing portfolio: every query goes to all idle solver processes; the first definite answer wins.
// A solver still busy with an abandoned query is skipped until it answers (bounded by its per-query timeout).

import (
	"reflect"
	"time"
)

type pquery struct {
	pc        []*Term
	extra     *Term
	wantModel bool
	vars      []*Term
}

type presp struct {
	res Res
	m   Model
	dur time.Duration
}

type member struct {
	s       *Solver
	in      chan pquery
	out     chan presp
	busy    bool
	wins    int
	closing bool
}

type Portfolio struct {
	ms       []*member
	stats    SolverStats
	Wins     map[string]int
	stagger  time.Duration
	deadline time.Time // after this instant every query is answered unknown (instance time budget)
}

func NewPortfolio(ts *TermStore, kinds []string, timeoutMs int) *Portfolio {
	p := &Portfolio{Wins: map[string]int{}, stagger: 150 * time.Millisecond}
	for _, k := range kinds {
		m := &member{s: NewSolver(ts, k, timeoutMs), in: make(chan pquery), out: make(chan presp, 1)}
		p.ms = append(p.ms, m)
		go func() {
			for q := range m.in {
				t0 := time.Now()
				res, mod := safeCheck(m, ts, timeoutMs, q)
				m.out <- presp{res, mod, time.Since(t0)}
			}
		}()
	}
	return p
}

func (p *Portfolio) Close() {
	for _, m := range p.ms {
		if m.busy {
			// abandoned query still running: kill the process, the reader goroutine ends with it
			m.closing = true
			m.s.cmd.Process.Kill()
			go func(m *member) { defer func() { recover() }(); <-m.out }(m)
		}
		close(m.in)
		if !m.busy {
			m.s.Close()
		}
	}
}

func (p *Portfolio) waitAny(idx []int) (int, presp) {
	cases := make([]reflect.SelectCase, len(idx))
	for i, k := range idx {
		cases[i] = reflect.SelectCase{Dir: reflect.SelectRecv, Chan: reflect.ValueOf(p.ms[k].out)}
	}
	i, v, _ := reflect.Select(cases)
	return idx[i], v.Interface().(presp)
}

func (p *Portfolio) Check(pc []*Term, extra *Term, wantModel bool, vars []*Term) (Res, Model) {
	t0 := time.Now()
	if !p.deadline.IsZero() && t0.After(p.deadline) {
		p.stats.Queries++
		p.stats.Unknown++
		return Unknown, nil
	}
	q := pquery{append([]*Term(nil), pc...), extra, wantModel, append([]*Term(nil), vars...)}
	// free members whose abandoned query has finished
	for _, m := range p.ms {
		if m.busy {
			select {
			case <-m.out:
				m.busy = false
			default:
			}
		}
	}
	var idle, stale []int
	for i, m := range p.ms {
		if m.busy {
			stale = append(stale, i)
		} else {
			idle = append(idle, i)
		}
	}
	res, mod := Unknown, Model(nil)
	send := func(i int) {
		p.ms[i].in <- q
		p.ms[i].busy = true
	}
	// staggered race: the first idle member gets the query alone; the others join after a short delay,
	// so that the (vast majority of) easy queries do not burn a second core.
	asked := func(set []int) bool {
		send(set[0])
		waiting := []int{set[0]}
		rest := append([]int(nil), set[1:]...)
		timer := time.NewTimer(p.stagger)
		defer timer.Stop()
		for len(waiting) > 0 {
			var i int
			var r presp
			if len(rest) > 0 {
				got := false
				select {
				case r = <-p.ms[waiting[0]].out:
					i, got = waiting[0], true
				case <-timer.C:
				}
				if !got {
					for _, k := range rest {
						send(k)
						waiting = append(waiting, k)
					}
					rest = nil
					continue
				}
			} else {
				i, r = p.waitAny(waiting)
			}
			p.ms[i].busy = false
			for k, w := range waiting {
				if w == i {
					waiting = append(waiting[:k], waiting[k+1:]...)
					break
				}
			}
			if r.res != Unknown {
				res, mod = r.res, r.m
				p.ms[i].wins++
				p.Wins[p.ms[i].s.kind]++
				return true // members still in `waiting` stay busy with the abandoned query
			}
			if len(waiting) == 0 && len(rest) > 0 {
				for _, k := range rest {
					send(k)
					waiting = append(waiting, k)
				}
				rest = nil
			}
		}
		return false
	}
	if len(idle) == 0 || !asked(idle) {
		// everyone asked so far said unknown (or nobody was idle): wait for the stale members and ask them
		for _, i := range stale {
			if p.ms[i].busy {
				<-p.ms[i].out
				p.ms[i].busy = false
			}
		}
		if len(stale) > 0 {
			asked(stale)
		}
	}
	d := time.Since(t0)
	p.stats.Queries++
	p.stats.Time += d
	if d > p.stats.MaxQuery {
		p.stats.MaxQuery = d
	}
	switch res {
	case Sat:
		p.stats.Sat++
	case Unsat:
		p.stats.Unsat++
	default:
		p.stats.Unknown++
	}
	return res, mod
}

// safeCheck shields the orchestrator from a solver process that died (killed or crashed): the query is
// inconclusive for that member and the process is restarted for the next one.
func safeCheck(m *member, ts *TermStore, timeoutMs int, q pquery) (res Res, mod Model) {
	defer func() {
		if r := recover(); r != nil {
			res, mod = Unknown, nil
			if !m.closing {
				kind := m.s.kind
				func() { defer func() { recover() }(); m.s.cmd.Process.Kill(); m.s.cmd.Wait() }()
				m.s = NewSolver(ts, kind, timeoutMs)
			}
		}
	}()
	// hard watchdog: z3's :timeout is soft and sometimes ignored inside bit-blasting
	proc := m.s.cmd.Process
	wd := time.AfterFunc(time.Duration(timeoutMs)*time.Millisecond*3/2+5*time.Second, func() { proc.Kill() })
	defer wd.Stop()
	return m.s.Check(q.pc, q.extra, q.wantModel, q.vars)
}
