package main

// A racing portfolio: every query goes to all idle solver processes; the first definite answer wins.
// A solver still busy with an abandoned query is skipped until it answers (bounded by its per-query timeout).

import (
	"reflect"
	"time"
)

type pquery struct {
	pc        []*Term
	extra     *Term
	wantModel bool
	vars      []*Term
}

type presp struct {
	res Res
	m   Model
	dur time.Duration
}

type member struct {
	s    *Solver
	in   chan pquery
	out  chan presp
	busy bool
	wins int
}

type Portfolio struct {
	ms    []*member
	stats SolverStats
	Wins  map[string]int
}

func NewPortfolio(ts *TermStore, kinds []string, timeoutMs int) *Portfolio {
	p := &Portfolio{Wins: map[string]int{}}
	for _, k := range kinds {
		m := &member{s: NewSolver(ts, k, timeoutMs), in: make(chan pquery), out: make(chan presp, 1)}
		p.ms = append(p.ms, m)
		go func() {
			for q := range m.in {
				t0 := time.Now()
				res, mod := m.s.Check(q.pc, q.extra, q.wantModel, q.vars)
				m.out <- presp{res, mod, time.Since(t0)}
			}
		}()
	}
	return p
}

func (p *Portfolio) Close() {
	for _, m := range p.ms {
		if m.busy {
			// abandoned query still running: kill the process, the reader goroutine ends with it
			m.s.cmd.Process.Kill()
			go func(m *member) { defer func() { recover() }(); <-m.out }(m)
		}
		close(m.in)
		if !m.busy {
			m.s.Close()
		}
	}
}

func (p *Portfolio) waitAny(idx []int) (int, presp) {
	cases := make([]reflect.SelectCase, len(idx))
	for i, k := range idx {
		cases[i] = reflect.SelectCase{Dir: reflect.SelectRecv, Chan: reflect.ValueOf(p.ms[k].out)}
	}
	i, v, _ := reflect.Select(cases)
	return idx[i], v.Interface().(presp)
}

func (p *Portfolio) Check(pc []*Term, extra *Term, wantModel bool, vars []*Term) (Res, Model) {
	t0 := time.Now()
	q := pquery{append([]*Term(nil), pc...), extra, wantModel, append([]*Term(nil), vars...)}
	// free members whose abandoned query has finished
	for _, m := range p.ms {
		if m.busy {
			select {
			case <-m.out:
				m.busy = false
			default:
			}
		}
	}
	var idle, stale []int
	for i, m := range p.ms {
		if m.busy {
			stale = append(stale, i)
		} else {
			idle = append(idle, i)
		}
	}
	res, mod := Unknown, Model(nil)
	asked := func(set []int) bool {
		for _, i := range set {
			p.ms[i].in <- q
			p.ms[i].busy = true
		}
		waiting := append([]int(nil), set...)
		for len(waiting) > 0 {
			i, r := p.waitAny(waiting)
			p.ms[i].busy = false
			for k, w := range waiting {
				if w == i {
					waiting = append(waiting[:k], waiting[k+1:]...)
					break
				}
			}
			if r.res != Unknown {
				res, mod = r.res, r.m
				p.ms[i].wins++
				p.Wins[p.ms[i].s.kind]++
				return true // members still in `waiting` stay busy with the abandoned query
			}
		}
		return false
	}
	if len(idle) == 0 || !asked(idle) {
		// everyone asked so far said unknown (or nobody was idle): wait for the stale members and ask them
		for _, i := range stale {
			if p.ms[i].busy {
				<-p.ms[i].out
				p.ms[i].busy = false
			}
		}
		if len(stale) > 0 {
			asked(stale)
		}
	}
	d := time.Since(t0)
	p.stats.Queries++
	p.stats.Time += d
	if d > p.stats.MaxQuery {
		p.stats.MaxQuery = d
	}
	switch res {
	case Sat:
		p.stats.Sat++
	case Unsat:
		p.stats.Unsat++
	default:
		p.stats.Unknown++
	}
	return res, mod
}
