package main

func runMain(args []string) int      { return 0 }
func replayMain(args []string) int   { return 0 }
func selftestMain(args []string) int { return 0 }
