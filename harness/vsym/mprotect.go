package vsym

import (
	"runtime/debug"
	"syscall"
)

func frozenCopy(b []byte) []byte {
	debug.SetPanicOnFault(true)
	n := len(b)
	if n == 0 {
		return []byte{}
	}
	pg := syscall.Getpagesize()
	sz := (n + pg - 1) / pg * pg
	m, err := syscall.Mmap(-1, 0, sz, syscall.PROT_READ|syscall.PROT_WRITE, syscall.MAP_ANON|syscall.MAP_PRIVATE)
	if err != nil {
		panic(err)
	}
	copy(m, b)
	if err := syscall.Mprotect(m, syscall.PROT_READ); err != nil {
		panic(err)
	}
	maps = append(maps, m)
	return m[:n:n]
}

var maps [][]byte

func thaw(b []byte) {
	if len(b) == 0 {
		return
	}
	for _, m := range maps {
		if &m[0] == &b[0] {
			if err := syscall.Mprotect(m, syscall.PROT_READ|syscall.PROT_WRITE); err != nil {
				panic(err)
			}
		}
	}
}
