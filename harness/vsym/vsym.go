// Package vsym is the nondeterministic-input API of the verification harnesses.
//
// Under the symbolic VM (symgo) every function here is intercepted and given symbolic semantics
// (fresh SMT variables, assumptions, proof obligations).  Compiled natively (go test -tags verif with an
// overlay) the same calls read a recorded tape, so that a solver model can be replayed against the real build.
package vsym

import (
	"encoding/json"
	"fmt"
	"math/bits"
	"os"
)

type job struct {
	Harness string         `json:"harness"`
	Params  map[string]int `json:"params"`
	Tape    []uint64       `json:"tape"`
}

var (
	cur      job
	pos      int
	registry = map[string]func(){}
)

// Register makes a harness callable by name from the native replay test.
func Register(name string, f func()) { registry[name] = f }

func next() uint64 {
	if pos >= len(cur.Tape) {
		pos++
		return 0
	}
	v := cur.Tape[pos]
	pos++
	return v
}

func U8() uint8   { return uint8(next()) }
func U16() uint16 { return uint16(next()) }
func U32() uint32 { return uint32(next()) }
func U64() uint64 { return next() }
func I64() int64  { return int64(next()) }
func Int() int    { return int(next()) }
func Bool() bool  { return next()&1 == 1 }
func Choice(n int) int {
	v := int(next())
	Assume(v >= 0 && v < n)
	return v
}

func Param(name string) int {
	return cur.Params[name] // parameters not given are 0
}

func Assume(c bool) {
	if !c {
		fmt.Println("VERIF-ASSUME-REJECTED")
		os.Exit(0)
	}
}

func Assert(c bool, label string) {
	if !c {
		fmt.Println("VERIF-ASSERT-FAILED " + label)
		os.Exit(1)
	}
}

func Reach(label string) { fmt.Println("VERIF-REACH " + label) }

func And(a, b bool) bool     { return a && b }
func Or(a, b bool) bool      { return a || b }
func Implies(a, b bool) bool { return !a || b }

func IteU8(c bool, a, b uint8) uint8 {
	if c {
		return a
	}
	return b
}
func IteU16(c bool, a, b uint16) uint16 {
	if c {
		return a
	}
	return b
}
func IteU32(c bool, a, b uint32) uint32 {
	if c {
		return a
	}
	return b
}
func IteU64(c bool, a, b uint64) uint64 {
	if c {
		return a
	}
	return b
}
func IteI64(c bool, a, b int64) int64 {
	if c {
		return a
	}
	return b
}
func IteInt(c bool, a, b int) int {
	if c {
		return a
	}
	return b
}
func IteBool(c bool, a, b bool) bool {
	if c {
		return a
	}
	return b
}
func B2I(c bool) int {
	if c {
		return 1
	}
	return 0
}

// PopCount64 is the specification-side population count (independent of the library's popcount kernels).
func PopCount64(w uint64) int { return bits.OnesCount64(w) }

// Concrete reports whether a value is a compile-time-known constant on the current path (always true natively);
// harness code uses it only to choose between equivalent formulations.
func Concrete(v uint64) bool { return true }

// Observe logs a value; the VM predicts it from its terms and the native run must print the same.
func Observe(v uint64) { fmt.Printf("VERIF-OBS %d\n", v) }
func ObserveBool(b bool) {
	if b {
		Observe(1)
	} else {
		Observe(0)
	}
}

// Freeze marks the backing store of b write-protected in the VM (the stand-in for a PROT_READ mapping).
// Natively the harness keeps a copy and compares (see CheckFrozen).
var frozen []frozenBuf

type frozenBuf struct {
	live []byte
	copy []byte
}

func Freeze(b []byte) {
	frozen = append(frozen, frozenBuf{b, append([]byte(nil), b...)})
}
func Unfreeze(b []byte) {
	for i := range frozen {
		if len(frozen[i].live) > 0 && len(b) > 0 && &frozen[i].live[0] == &b[0] {
			frozen[i].live = nil
		}
	}
}

var frozenWords []frozenW

type frozenW struct {
	live []uint64
	copy []uint64
}

func FreezeWords(b []uint64) {
	frozenWords = append(frozenWords, frozenW{b, append([]uint64(nil), b...)})
}

// CheckFrozen (native only; a no-op obligation in the VM, where the store itself traps) reports a write.
func CheckFrozen() {
	for _, f := range frozen {
		for i := range f.live {
			if f.live[i] != f.copy[i] {
				fmt.Printf("VERIF-ASSERT-FAILED caller-buffer-written (byte %d)\n", i)
				os.Exit(1)
			}
		}
	}
	for _, f := range frozenWords {
		for i := range f.live {
			if f.live[i] != f.copy[i] {
				fmt.Printf("VERIF-ASSERT-FAILED caller-words-written (word %d)\n", i)
				os.Exit(1)
			}
		}
	}
}

func SameBacking8(a, b []byte) bool {
	return cap(a) > 0 && cap(b) > 0 && overlap(addr8(a), cap(a), addr8(b), cap(b))
}
func SameBacking16(a, b []uint16) bool {
	return cap(a) > 0 && cap(b) > 0 && overlap(addr16(a), 2*cap(a), addr16(b), 2*cap(b))
}
func SameBacking64(a, b []uint64) bool {
	return cap(a) > 0 && cap(b) > 0 && overlap(addr64(a), 8*cap(a), addr64(b), 8*cap(b))
}
func overlap(a uintptr, na int, b uintptr, nb int) bool {
	return a < b+uintptr(nb) && b < a+uintptr(na)
}

// Catch runs f and reports whether it panicked.
func Catch(f func()) (panicked bool) {
	defer func() {
		if r := recover(); r != nil {
			panicked = true
		}
	}()
	f()
	return false
}

// ReplayMain is called by the native replay test: runs the harness named in $VERIF_JOB.
func ReplayMain() {
	path := os.Getenv("VERIF_JOB")
	if path == "" {
		fmt.Println("VERIF-NOJOB")
		return
	}
	b, err := os.ReadFile(path)
	if err != nil {
		panic(err)
	}
	if err := json.Unmarshal(b, &cur); err != nil {
		panic(err)
	}
	f, ok := registry[cur.Harness]
	if !ok {
		fmt.Println("VERIF-UNKNOWN-HARNESS " + cur.Harness)
		os.Exit(2)
	}
	func() {
		defer func() {
			if r := recover(); r != nil {
				fmt.Printf("VERIF-PANIC %v\n", r)
				os.Exit(1)
			}
		}()
		f()
	}()
	CheckFrozen()
	fmt.Println("VERIF-DONE")
}

// LenOnly returns a slice of n elements of which only the length is meaningful: under the VM n may be symbolic
// and any element access aborts the path; natively it is make([]T, n).  Used for size-accounting lemmas (C14).
func LenOnly[T any](n int) []T { return make([]T, n) }

// FrozenCopy returns a copy of b that the callee must never write: under the VM the backing object is write-protected
// (a store terminates the path as a violation); natively the copy lives in an anonymous mapping that is mprotect'ed
// PROT_READ, so a write faults (turned into a panic by debug.SetPanicOnFault) - the real thing, not a stand-in.
func FrozenCopy(b []byte) []byte { return frozenCopy(b) }

// Thaw makes a FrozenCopy writable again (the caller reuses its buffer).
func Thaw(b []byte) { thaw(b) }
