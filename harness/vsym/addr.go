package vsym

import "unsafe"

func addr8(a []byte) uintptr    { return uintptr(unsafe.Pointer(unsafe.SliceData(a[:cap(a)]))) }
func addr16(a []uint16) uintptr { return uintptr(unsafe.Pointer(unsafe.SliceData(a[:cap(a)]))) }
func addr64(a []uint64) uintptr { return uintptr(unsafe.Pointer(unsafe.SliceData(a[:cap(a)]))) }
