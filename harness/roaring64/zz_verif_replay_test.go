//go:build verif

package roaring64

import (
	"testing"

	"github.com/RoaringBitmap/roaring/v2/internal/vsym"
)

func TestVerifReplay(t *testing.T) { vsym.ReplayMain() }
