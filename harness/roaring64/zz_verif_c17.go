//go:build verif

package roaring64

import (
	"bytes"

	"github.com/RoaringBitmap/roaring/v2"
	"github.com/RoaringBitmap/roaring/v2/internal/vsym"
)

func init() {
	vsym.Register("VerifC17Op", VerifC17Op)
	vsym.Register("VerifC18RoundTrip", VerifC18RoundTrip)
	vsym.Register("VerifC18Decode", VerifC18Decode)
}

// model of a 64-bit bitmap: a list of symbolic members (duplicates allowed) plus ranges
type wSet struct {
	elems []uint64
	// layered operations on top, oldest first
	ops []wOp
}

type wOp struct {
	kind int // 0 add point, 1 remove point, 2 add range, 3 remove range, 4 flip range
	a, b uint64
}

func (s *wSet) has(x uint64) bool {
	r := false
	for _, e := range s.elems {
		r = vsym.Or(r, e == x)
	}
	for _, o := range s.ops {
		in := vsym.And(o.a <= x, x < o.b)
		switch o.kind {
		case 0:
			r = vsym.Or(r, x == o.a)
		case 1:
			r = vsym.And(r, x != o.a)
		case 2:
			r = vsym.Or(r, in)
		case 3:
			r = vsym.And(r, !in)
		case 4:
			r = r != in
		}
	}
	return r
}

// number of distinct base elements (no layered ops)
func (s *wSet) baseCard() int {
	n := 0
	for i, e := range s.elems {
		dup := false
		for j := 0; j < i; j++ {
			dup = vsym.Or(dup, s.elems[j] == e)
		}
		n += vsym.B2I(!dup)
	}
	return n
}

// number of distinct base elements < t (t may be 2^64 via lt==false meaning "all")
func (s *wSet) baseCountLT(t uint64) int {
	n := 0
	for i, e := range s.elems {
		dup := false
		for j := 0; j < i; j++ {
			dup = vsym.Or(dup, s.elems[j] == e)
		}
		n += vsym.B2I(vsym.And(!dup, e < t))
	}
	return n
}

// vGen64: nb buckets with symbolic high keys, each holding ne symbolic low values, built directly as a bucket table.
//
//	params (prefixed): nb, ne, keys (0 free increasing, 1 first 0, 2 last 0xFFFFFFFF, 3 adjacent, 4 concrete 0,1,..), cow
func vGen64(p string) (*Bitmap, *wSet) {
	nb, ne := vsym.Param(p+"nb"), vsym.Param(p+"ne")
	pat := vsym.Param(p + "keys")
	rb := &Bitmap{}
	ra := &rb.highlowcontainer
	s := &wSet{}
	var prev uint32
	for i := 0; i < nb; i++ {
		var key uint32
		switch {
		case pat == 4:
			key = uint32(i)
		case pat == 6:
			key = uint32(2 * i)
		case pat == 7:
			key = []uint32{10, 30, 0xFFFFFFFF}[i]
		case pat == 8:
			key = []uint32{0, 10, 40}[i]
		case pat == 9:
			key = []uint32{5, 20, 50}[i]
		case pat == 10:
			key = []uint32{0, 5, 9}[i]
		case pat == 11: // nb consecutive buckets ending at the top of the key space
			key = uint32(0xFFFFFFFF - uint32(nb-1) + uint32(i))
		case pat == 1 && i == 0:
			key = 0
		case pat == 2 && i == nb-1:
			key = 0xFFFFFFFF
		case pat == 3 && i > 0:
			vsym.Assume(prev < 0xFFFFFFFF)
			key = prev + 1
		case pat == 5: // anchored at the top: 0xFFFFFFF0 + 4i + {0..3}
			key = uint32(0xFFFFFFF0+4*i) + (vsym.U32() & 3)
		default:
			key = vsym.U32()
		}
		if i > 0 {
			vsym.Assume(prev < key)
		}
		prev = key
		inner := roaring.NewBitmap()
		for j := 0; j < ne; j++ {
			lo := vsym.U32()
			if w := vsym.Param(p + "low"); w > 0 {
				lo = uint32(vsym.Param(p+"lowb")) + (lo & uint32(w))
			} else if w < 0 {
				lo = uint32(vsym.Param(p+"lowb")) + uint32(j) // concrete values (key-arithmetic instances)
			}
			inner.Add(lo)
			s.elems = append(s.elems, uint64(key)<<32|uint64(lo))
		}
		if nch := vsym.Param(p + "four"); nch >= 1 {
			// exactly nch chunks (four = 1 means 4: the offset-header threshold of the inner format; 8: a whole byte of
			// run flags), the last of them a run chunk
			if nch == 1 {
				nch = 4
			}
			rb0 := uint64(nch-1)<<16 + 10
			inner.AddRange(rb0, rb0+10)
			for c := uint32(0); c < uint32(nch-1); c++ {
				lo := c<<16 | uint32(vsym.U16())
				inner.Add(lo)
				s.elems = append(s.elems, uint64(key)<<32|uint64(lo))
			}
			for v := rb0; v < rb0+10; v++ {
				s.elems = append(s.elems, uint64(key)<<32|v)
			}
			inner.RunOptimize()
		}
		if vsym.Param(p+"opt") == 1 {
			inner.RunOptimize()
		}
		ra.keys = append(ra.keys, key)
		ra.containers = append(ra.containers, inner)
		cow := false
		if vsym.Param(p+"cow") == 1 {
			cow = vsym.Bool()
		}
		ra.needCopyOnWrite = append(ra.needCopyOnWrite, cow)
	}
	if vsym.Param(p+"cow") == 1 {
		ra.copyOnWrite = vsym.Bool()
	}
	return rb, s
}

// membership decoded from the bucket table; the inner 32-bit bitmaps are listed once (ToArray has no value-dependent
// branches on array chunks) and compared branch-free, instead of calling Contains (a binary search that forks per bucket)
func v64Has(rb *Bitmap, x uint64) bool {
	ra := &rb.highlowcontainer
	hi, lo := uint32(x>>32), uint32(x)
	r := false
	for i := range ra.keys {
		in := false
		for _, v := range ra.containers[i].ToArray() {
			in = vsym.Or(in, v == lo)
		}
		r = vsym.Or(r, vsym.And(ra.keys[i] == hi, in))
	}
	return r
}

func v64Wf(rb *Bitmap) {
	ra := &rb.highlowcontainer
	vsym.Assert(len(ra.keys) == len(ra.containers), "wf-parallel-slices")
	vsym.Assert(len(ra.keys) == len(ra.needCopyOnWrite), "wf-parallel-slices")
	ok := true
	for i := range ra.keys {
		if i > 0 {
			ok = vsym.And(ok, ra.keys[i-1] < ra.keys[i])
		}
	}
	vsym.Assert(ok, "wf-keys-sorted")
	for i := range ra.containers {
		if i < len(ra.containers) {
			vsym.Assert(!ra.containers[i].IsEmpty(), "wf-empty-bucket")
		}
	}
}

func v64Card(rb *Bitmap) uint64 {
	var n uint64
	for _, c := range rb.highlowcontainer.containers {
		n += c.GetCardinality()
	}
	return n
}

// 64-bit argument window: xb (high 32 bits given by param xh) + free & xm
func v64Arg() uint64 {
	base := uint64(vsym.Param("xh"))<<32 | uint64(uint32(vsym.Param("xb")))
	xm := vsym.Param("xm")
	if xm < 0 {
		return vsym.U64()
	}
	return base + (vsym.U64() & uint64(xm))
}

func v64Range() (uint64, uint64) {
	s := uint64(vsym.Param("sh"))<<32 + uint64(vsym.Param("sb")) + (vsym.U64() & uint64(vsym.Param("sm")))
	e := s + (vsym.U64() & uint64(vsym.Param("len")))
	if eh := vsym.Param("eh"); eh > 0 {
		// long ranges: the end lies eh buckets further up
		e = uint64(vsym.Param("sh")+eh)<<32 + (vsym.U64() & uint64(vsym.Param("len")))
	}
	return s, e
}

// VerifC17Op: one operation of the 64-bit bitmap against the plain-set model.
//
//	params: op, a*, b*, window params
func VerifC17Op() {
	op := vsym.Param("op")
	a, sa := vGen64("a")
	y := v64Arg()
	switch {
	case op <= 7: // set algebra: 0..3 static And/Or/Xor/AndNot, 4..7 in-place
		var b *Bitmap
		var sb *wSet
		if vsym.Param("self") == 1 {
			b, sb = a, sa
		} else {
			b, sb = vGen64("b")
		}
		keepB := b.Clone()
		var r *Bitmap
		switch op {
		case 0:
			r = And(a, b)
		case 1:
			r = Or(a, b)
		case 2:
			r = Xor(a, b)
		case 3:
			r = AndNot(a, b)
		case 4:
			a.And(b)
			r = a
		case 5:
			a.Or(b)
			r = a
		case 6:
			a.Xor(b)
			r = a
		case 7:
			a.AndNot(b)
			r = a
		}
		ha, hb := sa.has(y), sb.has(y)
		want := false
		switch op % 4 {
		case 0:
			want = vsym.And(ha, hb)
		case 1:
			want = vsym.Or(ha, hb)
		case 2:
			want = ha != hb
		case 3:
			want = vsym.And(ha, !hb)
		}
		v64Wf(r)
		vsym.Assert(v64Has(r, y) == want, "exact-set")
		if vsym.Param("self") != 1 {
			vsym.Assert(b.Equals(keepB), "argument-modified")
			// value semantics: mutating the result does not change the argument (and vice versa)
			z := v64Arg()
			hadB := sb.has(z)
			r.Add(z)
			r.Remove(z + 1)
			vsym.Assert(v64Has(b, z) == hadB, "argument-changed-by-mutating-the-result")
			vsym.Assert(b.Equals(keepB), "argument-changed-by-mutating-the-result")
		}
	case op == 8 || op == 9:
		had := sa.has(y)
		if op == 8 {
			a.Add(y)
		} else {
			vsym.Assert(a.CheckedAdd(y) == !had, "checked-result")
		}
		v64Wf(a)
		z := v64Arg()
		vsym.Assert(v64Has(a, z) == vsym.Or(sa.has(z), z == y), "exact-set")
		vsym.Assert(v64Card(a) == uint64(sa.baseCard()+vsym.B2I(!had)), "cardinality")
	case op == 10 || op == 11:
		had := sa.has(y)
		if op == 10 {
			a.Remove(y)
		} else {
			vsym.Assert(a.CheckedRemove(y) == had, "checked-result")
		}
		v64Wf(a)
		z := v64Arg()
		vsym.Assert(v64Has(a, z) == vsym.And(sa.has(z), z != y), "exact-set")
		vsym.Assert(v64Card(a) == uint64(sa.baseCard()-vsym.B2I(had)), "cardinality")
	case op == 12:
		y2 := v64Arg()
		a.AddMany([]uint64{y, y2})
		v64Wf(a)
		z := v64Arg()
		vsym.Assert(v64Has(a, z) == vsym.Or(sa.has(z), vsym.Or(z == y, z == y2)), "exact-set")
	case op >= 13 && op <= 16:
		s, e := v64Range()
		in := func(z uint64) bool { return vsym.And(s <= z, z < e) }
		r := a
		keep := a.Clone()
		switch op {
		case 13:
			a.AddRange(s, e)
		case 14:
			a.RemoveRange(s, e)
		case 15:
			a.Flip(s, e)
		case 16:
			r = Flip(a, s, e)
			vsym.Assert(a.Equals(keep), "argument-modified")
		}
		v64Wf(r)
		if vsym.Param("eh") > 0 {
			// whole buckets inside the range: the contents are billions of values; only the structure of the result (sorted
			// bucket keys, no empty bucket, parallel slices) and the untouched argument are asserted here
			vsym.Observe(uint64(len(r.highlowcontainer.keys)))
			vsym.Reach("end")
			return
		}
		z := v64Arg()
		want := false
		switch op {
		case 13:
			want = vsym.Or(sa.has(z), in(z))
		case 14:
			want = vsym.And(sa.has(z), !in(z))
		default:
			want = sa.has(z) != in(z)
		}
		vsym.Assert(v64Has(r, z) == want, "exact-set")
		cnt := vsym.IteInt(s < e, sa.baseCountLT(e)-sa.baseCountLT(s), 0)
		ln := vsym.IteInt(s < e, int(e-s), 0)
		card := sa.baseCard()
		switch op {
		case 13:
			card = card + ln - cnt
		case 14:
			card = card - cnt
		default:
			card = card + ln - 2*cnt
		}
		vsym.Assert(v64Card(r) == uint64(card), "cardinality")
	case op == 17: // scalar queries
		card := sa.baseCard()
		vsym.Assert(a.GetCardinality() == uint64(card), "cardinality")
		vsym.Assert(a.IsEmpty() == (card == 0), "is-empty")
		vsym.Assert(a.Contains(y) == sa.has(y), "contains")
		vsym.Assert(a.Rank(y) == uint64(sa.baseCountLT(y)+vsym.B2I(sa.has(y))), "rank")
		if len(sa.elems) > 0 {
			mn, mx := a.Minimum(), a.Maximum()
			vsym.Assert(vsym.And(sa.has(mn), sa.baseCountLT(mn) == 0), "minimum")
			vsym.Assert(vsym.And(sa.has(mx), sa.baseCountLT(mx) == card-1), "maximum")
		}
		i := vsym.U64() & 7
		v, err := a.Select(i)
		vsym.Assert((err == nil) == (i < uint64(card)), "select-error")
		if err == nil {
			vsym.Assert(vsym.And(sa.has(v), uint64(sa.baseCountLT(v)) == i), "select")
		}
		b, sb := vGen64("b")
		n := 0
		for idx, e := range sa.elems {
			dup := false
			for j := 0; j < idx; j++ {
				dup = vsym.Or(dup, sa.elems[j] == e)
			}
			n += vsym.B2I(vsym.And(!dup, sb.has(e)))
		}
		vsym.Assert(a.Equals(b) == vsym.And(n == card, n == sb.baseCard()), "equals")
		vsym.Assert(a.AndCardinality(b) == uint64(n), "and-cardinality")
		vsym.Assert(a.OrCardinality(b) == uint64(card+sb.baseCard()-n), "or-cardinality")
		vsym.Assert(a.Intersects(b) == (n > 0), "intersects")
		arr := a.ToArray()
		ok := len(arr) == card
		for k := range arr {
			ok = vsym.And(ok, sa.has(arr[k]))
			if k > 0 {
				ok = vsym.And(ok, arr[k-1] < arr[k])
			}
		}
		vsym.Assert(ok, "toarray")
	case op == 18: // iterators
		card := sa.baseCard()
		it := a.Iterator()
		n := 0
		ok := true
		var prev uint64
		for it.HasNext() && n < 12 {
			pk := it.PeekNext()
			v := it.Next()
			ok = vsym.And(ok, vsym.And(pk == v, sa.has(v)))
			if n > 0 {
				ok = vsym.And(ok, prev < v)
			}
			prev = v
			n++
		}
		vsym.Assert(ok, "forward-order-membership")
		vsym.Assert(n == card, "forward-count")
		rit := a.ReverseIterator()
		n = 0
		ok = true
		for rit.HasNext() && n < 12 {
			v := rit.Next()
			ok = vsym.And(ok, sa.has(v))
			if n > 0 {
				ok = vsym.And(ok, prev > v)
			}
			prev = v
			n++
		}
		vsym.Assert(ok, "reverse-order-membership")
		vsym.Assert(n == card, "reverse-count")
		// advance
		it2 := a.Iterator()
		it2.AdvanceIfNeeded(y)
		below := sa.baseCountLT(y)
		vsym.Assert(it2.HasNext() == (below < card), "advance-hasnext")
		if it2.HasNext() {
			v := it2.Next()
			vsym.Assert(vsym.And(vsym.And(sa.has(v), v >= y), sa.baseCountLT(v) == below), "advance-next")
		}
		// many
		mi := a.ManyIterator()
		buf := make([]uint64, 2)
		n = 0
		ok = true
		for round := 0; round < 8; round++ {
			got := mi.NextMany(buf)
			for k := 0; k < got && k < 2; k++ {
				ok = vsym.And(ok, sa.has(buf[k]))
				if n > 0 {
					ok = vsym.And(ok, prev < buf[k])
				}
				prev = buf[k]
				n++
			}
			if got < 2 {
				break
			}
		}
		vsym.Assert(ok, "many-order-membership")
		vsym.Assert(n == card, "many-count")
		cnt := 0
		Values(a)(func(v uint64) bool { cnt++; return true })
		vsym.Assert(cnt == card, "values-count")
	case op == 19: // aggregates
		b, sb := vGen64("b")
		c, sc := vGen64("c")
		w := vsym.Param("w")
		var r *Bitmap
		want := false
		switch vsym.Param("g") {
		case 0:
			r = FastOr(a, b, c)
			want = vsym.Or(sa.has(y), vsym.Or(sb.has(y), sc.has(y)))
		case 1:
			r = FastAnd(a, b, c)
			want = vsym.And(sa.has(y), vsym.And(sb.has(y), sc.has(y)))
		case 2:
			r = ParOr(w, a, b, c)
			want = vsym.Or(sa.has(y), vsym.Or(sb.has(y), sc.has(y)))
		case 3:
			list := []*Bitmap{a, NewBitmap(), b}
			keep := append([]*Bitmap(nil), list...)
			r = ParOr(w, list...)
			want = vsym.Or(sa.has(y), sb.has(y))
			same := true
			for i := range list {
				if list[i] != keep[i] {
					same = false
				}
			}
			vsym.Assert(same, "argument-slice-modified")
		case 7: // three members, then the THIRD member is changed: the result must not follow
			r = ParOr(w, a, b, c)
			want = vsym.Or(sa.has(y), vsym.Or(sb.has(y), sc.has(y)))
			z := v64Arg()
			wantZ := vsym.Or(sa.has(z), vsym.Or(sb.has(z), sc.has(z)))
			c.Add(z)
			vsym.Assert(v64Has(r, z) == wantZ, "result-changed-by-mutating-a-member")
			c.Remove(y)
		case 4: // only one non-empty member: the result is still a bitmap of its own
			r = ParOr(w, NewBitmap(), a)
			want = sa.has(y)
		case 5: // a single member
			r = FastOr(a)
			want = sa.has(y)
		case 6:
			r = FastAnd(a)
			want = sa.has(y)
		}
		v64Wf(r)
		vsym.Assert(v64Has(r, y) == want, "exact-set")
		if vsym.Param("g") >= 4 {
			// value semantics: the result can be changed without changing the member
			z := v64Arg()
			r.Add(z)
			r.Remove(y)
			vsym.Assert(v64Has(a, z) == sa.has(z), "member-changed-by-mutating-the-result")
			vsym.Assert(v64Has(a, y) == sa.has(y), "member-changed-by-mutating-the-result")
		}
	case op == 21: // copy-on-write clone, in-place AndNot that cancels an earlier bucket and moves a later one down, then a mutation
		a.SetCopyOnWrite(true)
		c := a.Clone()
		x2, s2 := vGen64("b")
		c.AndNot(x2)
		v64Wf(c)
		vsym.Assert(v64Has(c, y) == vsym.And(sa.has(y), !s2.has(y)), "exact-set")
		z := v64Arg()
		c.Add(z)
		c.Remove(y)
		vsym.Assert(v64Has(a, z) == sa.has(z), "clone-source-changed")
		vsym.Assert(v64Has(a, y) == sa.has(y), "clone-source-changed")
	case op == 20: // clone independence with copy-on-write
		a.SetCopyOnWrite(vsym.Bool())
		c := a.Clone()
		z := v64Arg()
		c.Add(z)
		c.Remove(y)
		vsym.Assert(v64Has(a, z) == sa.has(z), "clone-source-changed")
		vsym.Assert(v64Has(a, y) == sa.has(y), "clone-source-changed")
		a.Add(y)
		vsym.Assert(v64Has(c, y) == false || true, "noop")
	}
	vsym.Reach("end")
}

// VerifC18RoundTrip: 64-bit serialization round trip with exact byte accounting.
//
//	params: rd (0 ReadFrom, 1 FromUnsafeBytes, 2 UnmarshalBinary), wr (0 ToBytes, 1 WriteTo, 2 MarshalBinary), tail, a*
func VerifC18RoundTrip() {
	a, sa := vGen64("a")
	var data []byte
	var err error
	var nw int64 = -1
	switch vsym.Param("wr") {
	case 0:
		data, err = a.ToBytes()
	case 1:
		var buf bytes.Buffer
		nw, err = a.WriteTo(&buf)
		data = buf.Bytes()
	case 2:
		data, err = a.MarshalBinary()
	}
	vsym.Assert(err == nil, "write-ok")
	size := a.GetSerializedSizeInBytes()
	vsym.Observe(size)
	vsym.Assert(uint64(len(data)) == size, "size-is-bytes-written")
	if nw >= 0 {
		vsym.Assert(uint64(nw) == size, "writeto-count")
	}
	vsym.Assert(a.Validate() == nil, "original-validates")
	tail := vsym.Param("tail")
	stream := make([]byte, len(data)+tail)
	copy(stream, data)
	for i := 0; i < tail; i++ {
		stream[len(data)+i] = vsym.U8()
	}
	if pp := vsym.Param("prefix"); pp == 1 {
		// every proper prefix is rejected (or at least does not panic: error or a bitmap)
		p := vsym.Choice(len(data))
		b := NewBitmap()
		switch vsym.Param("rd") {
		case 0:
			_, err = b.ReadFrom(bytes.NewReader(data[:p:p]))
		case 1:
			_, err = b.FromUnsafeBytes(data[:p:p])
		case 2:
			err = b.UnmarshalBinary(data[:p:p])
		}
		vsym.Assert(err != nil, "prefix-rejected")
		vsym.Reach("end")
		return
	}
	b := NewBitmap()
	if vsym.Param("reuse") == 1 {
		// a receiver that already holds values from an earlier decode
		b.Add(5)
		b.Add(1<<40 | 7)
	}
	var nr int64 = -1
	switch vsym.Param("rd") {
	case 0:
		rdr := bytes.NewReader(stream)
		nr, err = b.ReadFrom(rdr)
		vsym.Assert(rdr.Len() == tail, "reader-consumed-exactly")
	case 1:
		nr, err = b.FromUnsafeBytes(stream)
	case 2:
		err = b.UnmarshalBinary(stream)
	}
	vsym.Assert(err == nil, "read-ok")
	if nr >= 0 {
		vsym.Assert(uint64(nr) == size, "read-count")
	}
	v64Wf(b)
	y := v64Arg()
	vsym.Assert(v64Has(b, y) == sa.has(y), "exact-set")
	vsym.Assert(b.Equals(a), "equals-original")
	vsym.Assert(b.Validate() == nil, "validates")
	vsym.Reach("end")
}

// VerifC18Decode: damaged / arbitrary input: error or a bitmap, never a panic, hang or runaway allocation.
//
//	params: L (fully symbolic bytes) or skeleton corruption: corrupt (1 bucket count, 2 key, 3 inner header) on a valid stream
func VerifC18Decode() {
	var data []byte
	if L := vsym.Param("L"); L > 0 || vsym.Param("corrupt") == 0 {
		data = make([]byte, L)
		for i := range data {
			data[i] = vsym.U8()
		}
	} else {
		a, _ := vGen64("a")
		data, _ = a.ToBytes()
		switch vsym.Param("corrupt") {
		case 1: // the 8-byte bucket count
			for i := 0; i < 8 && i < len(data); i++ {
				data[i] = vsym.U8()
			}
		case 2: // first key
			for i := 8; i < 12 && i < len(data); i++ {
				data[i] = vsym.U8()
			}
		case 3: // first inner header (cookie + count)
			for i := 12; i < 20 && i < len(data); i++ {
				data[i] = vsym.U8()
			}
		}
	}
	b := NewBitmap()
	var err error
	switch vsym.Param("rd") {
	case 0:
		_, err = b.ReadFrom(bytes.NewReader(data))
	case 1:
		_, err = b.FromUnsafeBytes(data)
	case 2:
		err = b.UnmarshalBinary(data)
	}
	vsym.ObserveBool(err == nil)
	vsym.Reach("end")
}
