//go:build verif

package roaring64

import (
	"bytes"
	"math/big"

	"github.com/RoaringBitmap/roaring/v2/internal/vsym"
)

func init() {
	vsym.Register("VerifC19Update", VerifC19Update)
	vsym.Register("VerifC20Query", VerifC20Query)
}

// model: association list column -> value, later entries win; dead entries are deleted columns
type bPair struct {
	col  uint64
	val  int64
	live bool
}

type bModel struct{ ps []bPair }

func (m *bModel) set(c uint64, v int64) { m.ps = append(m.ps, bPair{c, v, true}) }
func (m *bModel) del(c uint64)          { m.ps = append(m.ps, bPair{c, 0, false}) }

// lookup: (value, exists) for column c
func (m *bModel) get(c uint64) (int64, bool) {
	var v int64
	ex := false
	for _, p := range m.ps {
		hit := p.col == c
		v = vsym.IteI64(hit, p.val, v)
		ex = vsym.IteBool(hit, p.live, ex)
	}
	return v, ex
}

// entry i is the defining one for its column (no later entry with the same column)
func (m *bModel) current(i int) bool {
	r := m.ps[i].live
	for j := i + 1; j < len(m.ps); j++ {
		r = vsym.And(r, m.ps[j].col != m.ps[i].col)
	}
	return r
}

func (m *bModel) card() int {
	n := 0
	for i := range m.ps {
		n += vsym.B2I(m.current(i))
	}
	return n
}

var vValN int

// a symbolic value of w bits, signed: [-2^(w-1), 2^(w-1)); with vfix=1 the values are the parameters v0, v1, ...
func vVal(w int) int64 {
	if vsym.Param("vfix") == 1 {
		vValN++
		return int64(vsym.Param("v" + []string{"0", "1", "2", "3", "4", "5"}[vValN-1]))
	}
	u := int64(vsym.U64() & (uint64(1)<<uint(w) - 1))
	return u - int64(1)<<uint(w-1)
}

func vCol() uint64 {
	if m := vsym.Param("cm"); m >= 0 {
		return uint64(vsym.Param("cb")) + (vsym.U64() & uint64(m))
	}
	return vsym.U64()
}

// vGenBSI builds an index by nv SetValue calls with symbolic columns and w-bit values (reachable by construction).
func vGenBSI(nv, w int) (*BSI, *bModel) { return vGenBSIAt(nv, w, 0) }

func vGenBSIAt(nv, w, colOff int) (*BSI, *bModel) {
	var b *BSI
	if vsym.Param("fixed") == 1 {
		b = NewBSI(int64(1)<<uint(w-1)-1, -(int64(1) << uint(w-1)))
	} else if vsym.Param("fixed") == 2 {
		// the widest fixed index: 64 value planes + sign, wider than the 64-plane fast paths
		b = NewBSI(9223372036854775807, -9223372036854775808)
	} else {
		b = NewDefaultBSI()
	}
	m := &bModel{}
	for i := 0; i < nv; i++ {
		var c uint64
		if vsym.Param("symcol") == 1 {
			c = vCol()
		} else {
			// concrete, possibly repeated columns: 0, 1, 0, ... (the third overwrites the first)
			c = uint64(vsym.Param("cb")) + uint64(colOff) + uint64(i%2)
		}
		v := vVal(w)
		b.SetValue(c, v)
		m.set(c, v)
	}
	return b, m
}

func vCheckBSI(b *BSI, m *bModel, label string) {
	if vsym.Param("symcol") == 1 {
		vCheckBSICol(b, m, vCol(), label)
		return
	}
	// concrete probe columns (the stored ones and a fresh one): the value bits are the symbolic dimension
	for k := 0; k < 4; k++ {
		vCheckBSICol(b, m, uint64(vsym.Param("cb"))+uint64(k), label)
	}
}

func vCheckBSICol(b *BSI, m *bModel, c uint64, label string) {
	wantV, wantE := m.get(c)
	v, e := b.GetValue(c)
	vsym.Assert(e == wantE, label+"-exists")
	vsym.Assert(vsym.Implies(wantE, v == wantV), label+"-value")
	vsym.Assert(b.ValueExists(c) == wantE, label+"-valueexists")
	vsym.Assert(b.GetCardinality() == uint64(m.card()), label+"-cardinality")
	bv, be := b.GetBigValue(c)
	vsym.Assert(be == wantE, label+"-big-exists")
	if be {
		vsym.Assert(vsym.And(bv.IsInt64(), bv.Int64() == wantV), label+"-big-value")
	}
	// no plane holds a column that is absent from the existence bitmap
	for i := range b.bA {
		vsym.Assert(vsym.Implies(b.bA[i].Contains(c), wantE), label+"-plane-outside-existence")
	}
}

// VerifC19Update: one update step from an index built by nv symbolic SetValue calls.
//
//	params: nv, w (bits), st (step), fixed, cb, cm (column window)
func VerifC19Update() {
	vValN = 0
	nv, w, st := vsym.Param("nv"), vsym.Param("w"), vsym.Param("st")
	b, m := vGenBSI(nv, w)
	vCheckBSI(b, m, "pre")
	switch st {
	case 0: // SetValue (overwrite or new column; possibly wider)
		c, v := vStepCol(), vVal(vsym.Param("w2"))
		b.SetValue(c, v)
		m.set(c, v)
	case 1: // SetBigValue
		c, v := vStepCol(), vVal(vsym.Param("w2"))
		b.SetBigValue(c, big.NewInt(v))
		m.set(c, v)
	case 2: // SetMany
		c1, c2, v := vStepCol(), vStepCol()+1, vVal(vsym.Param("w2"))
		fs := NewBitmap()
		fs.Add(c1)
		fs.Add(c2)
		b.SetMany(fs, v)
		m.set(c1, v)
		m.set(c2, v)
	case 3: // ClearValues
		if vsym.Param("self") == 1 {
			// clear everything, passing the index's own existence bitmap as the found-set
			b.ClearValues(b.GetExistenceBitmap())
			for _, q := range append([]bPair(nil), m.ps...) {
				m.del(q.col)
			}
			break
		}
		c := vStepCol()
		fs := NewBitmap()
		fs.Add(c)
		b.ClearValues(fs)
		m.del(c)
	case 4: // Retain
		c := vStepCol()
		keep := NewBitmap()
		keep.Add(c)
		// every column other than c is dropped
		nm := &bModel{}
		v, e := m.get(c)
		b.Retain(keep)
		if true {
			nm.ps = append(nm.ps, bPair{c, v, e})
		}
		vCheckBSIOnly(b, nm, c, "retain")
		vsym.Reach("end")
		return
	case 5: // Clone / NewBSIRetainSet
		c := b.Clone()
		vsym.Assert(c.Equals(b), "clone-equals")
		vCheckBSI(c, m, "clone")
		rs := b.NewBSIRetainSet(b.GetExistenceBitmap())
		vsym.Assert(rs.Equals(b), "retainset-equals")
		vCheckBSI(rs, m, "retainset")
	case 6: // MarshalBinary / UnmarshalBinary
		data, err := b.MarshalBinary()
		vsym.Assert(err == nil, "marshal-ok")
		c := NewDefaultBSI()
		if rw := vsym.Param("rw"); rw > 0 {
			// a receiver created for a wider range than the data needs
			c = NewBSI(int64(1)<<uint(rw-1)-1, -(int64(1) << uint(rw-1)))
		}
		vsym.Assert(c.UnmarshalBinary(data) == nil, "unmarshal-ok")
		vsym.Assert(c.Equals(b), "marshal-equals")
		vCheckBSI(c, m, "marshal")
	case 7: // WriteTo / ReadFrom
		var buf bytes.Buffer
		n, err := b.WriteTo(&buf)
		vsym.Assert(err == nil, "writeto-ok")
		vsym.Assert(int(n) == buf.Len(), "writeto-count")
		c := NewDefaultBSI()
		n2, err2 := c.ReadFrom(bytes.NewReader(buf.Bytes()))
		vsym.Assert(err2 == nil, "readfrom-ok")
		vsym.Assert(n2 == n, "readfrom-count")
		vsym.Assert(c.Equals(b), "stream-equals")
		vCheckBSI(c, m, "stream")
	case 8: // Increment on non-negative values
		c := vStepCol()
		for i := range m.ps {
			// othneg = 1: only the incremented column has to be non-negative, the other columns may hold negative values
			if vsym.Param("othneg") != 1 || m.ps[i].col == c {
				vsym.Assume(m.ps[i].val >= 0)
			}
		}
		fs := NewBitmap()
		fs.Add(c)
		_, ex := m.get(c)
		vsym.Assume(ex)
		b.Increment(fs)
		v, _ := m.get(c)
		m.set(c, v+1)
		vCheckBSI(b, m, "post")
		// the caller's found-set stays the caller's: changing it later must not change the index
		fs.Add(uint64(vsym.Param("cb")) + 3)
		fs.Remove(c)
	case 9: // ParOr on disjoint columns
		ow := w
		if w2 := vsym.Param("w2"); w2 > 0 {
			ow = w2
		}
		o, mo := vGenBSIAt(1, ow, 2)
		_, clash := m.get(mo.ps[0].col)
		vsym.Assume(!clash)
		args := []*BSI{o}
		m.set(mo.ps[0].col, mo.ps[0].val)
		if w3 := vsym.Param("w3"); w3 > 0 {
			// a second argument of another width (all on disjoint columns)
			o2, mo2 := vGenBSIAt(1, w3, 3)
			_, clash2 := m.get(mo2.ps[0].col)
			vsym.Assume(!clash2)
			args = append(args, o2)
			m.set(mo2.ps[0].col, mo2.ps[0].val)
		}
		b.ParOr(vsym.Param("par"), args...)
	case 10: // Add on non-negative values
		for i := range m.ps {
			vsym.Assume(m.ps[i].val >= 0)
		}
		ow := w
		if w2 := vsym.Param("w2"); w2 > 0 {
			ow = w2
		}
		o, mo := vGenBSIAt(1, ow, vsym.Param("sc"))
		vsym.Assume(mo.ps[0].val >= 0)
		oc := mo.ps[0].col
		cur, ex := m.get(oc)
		b.Add(o)
		m.set(oc, vsym.IteI64(ex, cur, 0)+mo.ps[0].val)
		vCheckBSI(b, m, "post")
		// value semantics: the argument index can be changed afterwards without affecting the sum
		o.SetValue(oc, 0)
		o.SetValue(oc+1, 1)
	}
	vCheckBSI(b, m, "post")
	vsym.Reach("end")
}

// the column an update step addresses: symbolic (symcol=1) or the concrete parameter sc relative to cb
func vStepCol() uint64 {
	if vsym.Param("symcol") == 1 {
		return vCol()
	}
	return uint64(vsym.Param("cb")) + uint64(vsym.Param("sc"))
}

// only column c may exist
func vCheckBSIOnly(b *BSI, m *bModel, only uint64, label string) {
	vCheckBSI(b, m, label)
	for k := 0; k < 3; k++ {
		c := uint64(vsym.Param("cb")) + uint64(k)
		vsym.Assert(vsym.Implies(c != only, !b.ValueExists(c)), label+"-dropped")
	}
}

// VerifC20Query: one query against the model map.
//
//	params: nv, w, q (query), cop (comparison operator 1..6), fs (found-set: 0 nil, 1 existence bitmap, 2 {first column}, 3 {second column}), par
func VerifC20Query() {
	vValN = 0
	nv, w, q := vsym.Param("nv"), vsym.Param("w"), vsym.Param("q")
	par := vsym.Param("par")
	b, m := vGenBSI(nv, w)
	cb := uint64(vsym.Param("cb"))
	cols := []uint64{cb, cb + 1, cb + 2}
	var found *Bitmap
	inFound := func(c uint64) bool { return true }
	switch vsym.Param("fs") {
	case 1:
		found = b.GetExistenceBitmap()
	case 2:
		found = BitmapOf(cb)
		inFound = func(c uint64) bool { return c == cb }
	case 3:
		found = BitmapOf(cb + 1)
		inFound = func(c uint64) bool { return c == cb+1 }
		_, e := m.get(cb + 1)
		vsym.Assume(e) // found-sets contain existing columns only
	}
	pred := func(op Operation, v, lo, hi int64) bool {
		switch op {
		case LT:
			return v < lo
		case LE:
			return v <= lo
		case EQ:
			return v == lo
		case GE:
			return v >= lo
		case GT:
			return v > lo
		case RANGE:
			return vsym.And(v >= lo, v <= hi)
		}
		return false
	}
	checkCols := func(res *Bitmap, want func(c uint64, v int64) bool, label string) {
		for _, c := range cols {
			v, e := m.get(c)
			vsym.Assert(res.Contains(c) == vsym.And(vsym.And(e, inFound(c)), want(c, v)), label)
		}
		vsym.Assert(res.GetCardinality() <= 2, label+"-extra-columns")
	}
	switch q {
	case 0: // CompareValue
		op := Operation(vsym.Param("cop"))
		lo, hi := vVal(w), vVal(w)
		if op == RANGE {
			vsym.Assume(lo <= hi)
		}
		res := b.CompareValue(par, op, lo, hi, found)
		checkCols(res, func(c uint64, v int64) bool { return pred(op, v, lo, hi) }, "compare")
		// the returned bitmap is independent of the index
		res.Add(cb + 7)
		res.Remove(cb)
		res2 := b.CompareValue(par, op, lo, hi, found)
		checkCols(res2, func(c uint64, v int64) bool { return pred(op, v, lo, hi) }, "compare-after-mutating-result")
		vCheckBSI(b, m, "index-after-mutating-result")
	case 1: // CompareBigValue
		op := Operation(vsym.Param("cop"))
		lo, hi := vVal(w), vVal(w)
		if op == RANGE {
			vsym.Assume(lo <= hi)
		}
		res := b.CompareBigValue(par, op, big.NewInt(lo), big.NewInt(hi), found)
		checkCols(res, func(c uint64, v int64) bool { return pred(op, v, lo, hi) }, "compare-big")
	case 2: // MinMax over a non-empty set
		any := false
		for _, c := range cols {
			_, e := m.get(c)
			any = vsym.Or(any, vsym.And(e, inFound(c)))
		}
		vsym.Assume(any)
		mn := b.MinMax(par, MIN, found)
		mx := b.MinMax(par, MAX, found)
		okMin, okMax, hitMin, hitMax := true, true, false, false
		for _, c := range cols {
			v, e := m.get(c)
			in := vsym.And(e, inFound(c))
			okMin = vsym.And(okMin, vsym.Implies(in, mn <= v))
			okMax = vsym.And(okMax, vsym.Implies(in, mx >= v))
			hitMin = vsym.Or(hitMin, vsym.And(in, v == mn))
			hitMax = vsym.Or(hitMax, vsym.And(in, v == mx))
		}
		vsym.Assert(vsym.And(okMin, hitMin), "min")
		vsym.Assert(vsym.And(okMax, hitMax), "max")
		bmn := b.MinMaxBig(par, MIN, found)
		vsym.Assert(vsym.And(bmn.IsInt64(), bmn.Int64() == mn), "min-big")
	case 3: // Sum
		var want int64
		cnt := 0
		for _, c := range cols {
			v, e := m.get(c)
			in := vsym.And(e, inFound(c))
			want += vsym.IteI64(in, v, 0)
			cnt += vsym.B2I(in)
		}
		fsum := found
		if fsum == nil {
			fsum = b.GetExistenceBitmap()
		}
		sum, n := b.Sum(fsum)
		vsym.Assert(sum == want, "sum")
		vsym.Assert(n == uint64(cnt), "sum-count")
		bs, bn := b.SumBigValues(fsum)
		vsym.Assert(vsym.And(bs.IsInt64(), bs.Int64() == want), "sum-big")
		vsym.Assert(bn == uint64(cnt), "sum-big-count")
	case 4: // BatchEqual / BatchEqualValues
		v1, v2 := vVal(w), vVal(w)
		res := b.BatchEqual(par, []int64{v1, v2})
		for _, c := range cols {
			v, e := m.get(c)
			vsym.Assert(res.Contains(c) == vsym.And(e, vsym.Or(v == v1, v == v2)), "batch-equal")
		}
		pairs := b.BatchEqualValues(par, []int64{v1, v2}, found)
		for _, c := range cols {
			v, e := m.get(c)
			want := vsym.And(vsym.And(e, inFound(c)), vsym.Or(v == v1, v == v2))
			got := false
			for _, p := range pairs {
				got = vsym.Or(got, vsym.And(p.ColumnID == c, p.Value == v))
			}
			vsym.Assert(got == want, "batch-equal-values")
		}
		vCheckBSI(b, m, "index-after-batch-equal")
	case 5: // Transpose (non-negative values: the values become column ids)
		for i := range m.ps {
			vsym.Assume(m.ps[i].val >= 0)
		}
		tr := b.Transpose()
		it := b.IntersectAndTranspose(par, b.GetExistenceBitmap())
		for val := int64(0); val < int64(1)<<uint(w-1); val++ {
			want := false
			for _, c := range cols {
				v, e := m.get(c)
				want = vsym.Or(want, vsym.And(e, v == val))
			}
			vsym.Assert(tr.Contains(uint64(val)) == want, "transpose")
			vsym.Assert(it.Contains(uint64(val)) == want, "intersect-and-transpose")
		}
		// the filter set is a set of VALUES (nil would mean the existence bitmap, i.e. column ids): allow every candidate value
		allVals := NewBitmap()
		allVals.AddRange(0, uint64(1)<<uint(w))
		twc := b.TransposeWithCounts(par, b.GetExistenceBitmap(), allVals)
		for val := int64(0); val < int64(1)<<uint(w-1); val++ {
			cnt := 0
			for _, c := range cols {
				v, e := m.get(c)
				cnt += vsym.B2I(vsym.And(e, v == val))
			}
			got, ex := twc.GetValue(uint64(val))
			vsym.Assert(ex == (cnt > 0), "transpose-with-counts-exists")
			vsym.Assert(vsym.Implies(cnt > 0, got == int64(cnt)), "transpose-with-counts")
		}
	case 6: // CompareBSI against a second index on the same columns
		o, mo := vGenBSI(nv, vsym.Param("w2"))
		op := Operation(vsym.Param("cop"))
		res := b.CompareBSI(op, o, found)
		for _, c := range cols {
			v, e := m.get(c)
			v2, e2 := mo.get(c)
			want := vsym.And(vsym.And(vsym.And(e, e2), inFound(c)), pred(op, v, v2, v2))
			vsym.Assert(res.Contains(c) == want, "compare-bsi")
		}
	}
	vsym.Reach("end")
}
