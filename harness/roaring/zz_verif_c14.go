//go:build verif

package roaring

import "github.com/RoaringBitmap/roaring/v2/internal/vsym"

func init() {
	vsym.Register("VerifC14Bound", VerifC14Bound)
	vsym.Register("VerifC14Step", VerifC14Step)
}

// VerifC14Bound: the accounting lemma. A bitmap of n chunks whose chunks are LENGTH-ONLY objects with symbolic
// cardinalities / run counts satisfying the representation invariant I; the real size functions are executed on it.
//
//	params: n (chunks), kinds (base-3 digits: 0 array, 1 bitmap, 2 run)
func VerifC14Bound() {
	n, kinds := vsym.Param("n"), vsym.Param("kinds")
	rb := &Bitmap{}
	ra := &rb.highlowcontainer
	ra.keys = make([]uint16, n)
	ra.containers = make([]container, n)
	ra.needCopyOnWrite = make([]bool, n)
	N := uint64(0)
	for i := 0; i < n; i++ {
		ra.keys[i] = vsym.U16()
		if i > 0 {
			vsym.Assume(ra.keys[i-1] < ra.keys[i])
		}
		switch kinds % 3 {
		case 0:
			c := vsym.Int()
			vsym.Assume(c >= 1)
			vsym.Assume(c <= arrayDefaultMaxSize)
			ra.containers[i] = &arrayContainer{content: vsym.LenOnly[uint16](c)}
			N += uint64(c)
		case 1:
			c := vsym.Int()
			vsym.Assume(c > arrayDefaultMaxSize)
			vsym.Assume(c <= maxCapacity)
			ra.containers[i] = &bitmapContainer{cardinality: c, bitmap: vsym.LenOnly[uint64](1024)}
			N += uint64(c)
		case 2:
			r, c := vsym.Int(), vsym.Int()
			vsym.Assume(r >= 1)
			vsym.Assume(c >= r)
			vsym.Assume(c <= maxCapacity)
			// I for run chunks (what Validate enforces): smaller than both alternatives
			sz := 2 + 4*r
			vsym.Assume(sz < 8192+bcBaseBytes)
			vsym.Assume(sz < 2*c)
			ra.containers[i] = &runContainer16{iv: vsym.LenOnly[interval16](r)}
			N += uint64(c)
		}
		kinds /= 3
	}
	// x: any universe size with all elements below it; the largest element is at least key_max<<16
	x := vsym.U64()
	vsym.Assume(x <= 1<<32)
	if n > 0 {
		vsym.Assume(x > uint64(ra.keys[n-1])<<16)
	}
	size := rb.GetSerializedSizeInBytes()
	vsym.Observe(size)
	chunksMax := (x + 65535) / 65536
	vsym.Assert(size <= 8+9*chunksMax+2*N, "readme-bound")
	if n > 0 {
		vsym.Assert(size <= BoundSerializedSizeInBytes(N, x), "bound-function")
	}
	vsym.Reach("end")
}

// VerifC14Step: real bitmaps (tiny symbolic chunks satisfying I) through one mutation and RunOptimize: size vs bounds.
func VerifC14Step() {
	a, da := vGenBitmap("a")
	_ = da
	m := vsym.Param("m")
	switch m {
	case 1:
		a.Add(vArg32())
	case 2:
		a.Remove(vArg32())
	case 3:
		s, e := vRangeArgs()
		a.AddRange(s, e)
	case 4:
		s, e := vRangeArgs()
		a.RemoveRange(s, e)
	case 5:
		s, e := vRangeArgs()
		a.Flip(s, e)
	case 6:
		a.CheckedRemove(vArg32())
	case 7:
		a.CheckedAdd(vArg32())
	case 8:
		// in-place intersection with a range bitmap (one run per chunk)
		s, e := vRangeArgs()
		r := NewBitmap()
		r.AddRange(s, e)
		a.And(r)
	case 9:
		s, e := vRangeArgs()
		r := NewBitmap()
		r.AddRange(s, e)
		a.AndNot(r)
	}
	if vsym.Param("opt") == 1 {
		a.RunOptimize()
	}
	// the accounting lemma (VerifC14Bound) covers every bitmap that satisfies the full invariant: the result must be one
	vBitmapWf(a, true)
	N := uint64(vBitmapCard(a))
	ra := &a.highlowcontainer
	if len(ra.keys) > 0 {
		// x = largest element + 1
		last := len(ra.keys) - 1
		var mx uint16
		switch c := ra.containers[last].(type) {
		case *arrayContainer:
			mx = c.content[len(c.content)-1]
		case *runContainer16:
			iv := c.iv[len(c.iv)-1]
			mx = iv.start + iv.length
		case *bitmapContainer:
			mx = 65535
		}
		x := (uint64(ra.keys[last])<<16 | uint64(mx)) + 1
		size := a.GetSerializedSizeInBytes()
		vsym.Observe(size)
		vsym.Assert(size <= 8+9*((x+65535)/65536)+2*N, "readme-bound")
		vsym.Assert(size <= BoundSerializedSizeInBytes(N, x), "bound-function")
		b, err := a.ToBytes()
		vsym.Assert(err == nil, "tobytes-ok")
		vsym.Assert(uint64(len(b)) == size, "size-is-bytes-written")
	}
	vsym.Reach("end")
}
