//go:build verif

package roaring

import "github.com/RoaringBitmap/roaring/v2/internal/vsym"

func init() {
	vsym.Register("VerifProbeUnion", VerifProbeUnion)
	vsym.Register("VerifProbeArrayOr", VerifProbeArrayOr)
	vsym.Register("VerifProbeBig", VerifProbeBig)
}

func vMember16(s []uint16, x uint16) bool {
	r := false
	for _, v := range s {
		r = vsym.Or(r, v == x)
	}
	return r
}

func vSorted(n int) []uint16 {
	s := make([]uint16, n)
	for i := 0; i < n; i++ {
		s[i] = vsym.U16()
		if i > 0 {
			vsym.Assume(s[i-1] < s[i])
		}
	}
	return s
}

func VerifProbeUnion() {
	n, m := vsym.Param("n"), vsym.Param("m")
	a := vSorted(n)
	b := vSorted(m)
	buf := make([]uint16, n+m)
	k := union2by2(a, b, buf)
	x := vsym.U16()
	vsym.Observe(uint64(k))
	vsym.Assert(vMember16(buf[:k], x) == vsym.Or(vMember16(a, x), vMember16(b, x)), "exact-set")
	for i := 1; i < k; i++ {
		vsym.Assert(buf[i-1] < buf[i], "sorted")
	}
	vsym.Reach("end")
}

func VerifProbeArrayOr() {
	n, m := vsym.Param("n"), vsym.Param("m")
	a := &arrayContainer{content: vSorted(n)}
	b := &arrayContainer{content: vSorted(m)}
	var ca, cb container = a, b
	r := ca.or(cb)
	x := vsym.U16()
	vsym.Assert(r.contains(x) == vsym.Or(vMember16(a.content, x), vMember16(b.content, x)), "exact-set")
	vsym.Observe(uint64(r.getCardinality()))
	vsym.Reach("end")
}

func VerifProbeBig() {
	n := vsym.Param("n")
	a := &arrayContainer{content: make([]uint16, n)}
	for i := 0; i < n; i++ {
		a.content[i] = uint16(i * 2)
	}
	x := vsym.U16()
	vsym.Assume(x > 20000)
	vsym.Assume(x < 20130)
	c := a.iaddReturnMinimized(x)
	vsym.Assert(c.getCardinality() == n+1, "card")
	vsym.Assert(c.contains(x), "contains")
	vsym.Reach("end")
}
