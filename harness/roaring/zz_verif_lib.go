//go:build verif

package roaring

// Harness library: generators of symbolic containers/bitmaps together with *descriptions*
// (the reference semantics), branch-free oracles over descriptions, representation decoders and
// the representation invariant wf.  Nothing here calls the operation under test.

import "github.com/RoaringBitmap/roaring/v2/internal/vsym"

const (
	vKArray  = 0
	vKBitmap = 1
	vKRun    = 2
)

// ---------- container descriptions

type vIv struct{ s, l uint16 } // [s, s+l]

const vKOp = 3 // composite: l OP r

type vDesc struct {
	inactive bool // an inactive description denotes the empty set (used for guarded layers)
	op       int  // vKOp: vOpAnd / vOpOr / vOpXor / vOpAndNot
	l, r     *vDesc
	kind     int
	elems    []uint16 // array
	ivs      []vIv    // run
	// bitmap: concrete base pattern + free words
	pat     int
	freeIdx []int
	freeVal []uint64
}

// base patterns for bitmap chunks (concrete): pattern -> membership of a value / word
const (
	vPatLo   = 0 // [0,4160)                      card 4160
	vPatThr  = 1 // [128, 128+4094)               card 4094 (free bits in words 0/1 decide the side of 4096)
	vPatHi   = 2 // everything                    card 65536 (free words punch holes)
	vPatAlt  = 3 // odd values                    card 32768
	vPatZero = 4 // nothing (only free words)     used for iterator walks / dense tests
	vPatMid  = 5 // [20000, 26000)                card 6000
)

func vPatHas(pat int, x uint16) bool {
	switch pat {
	case vPatLo:
		return x < 4160
	case vPatThr:
		return vsym.And(x >= 128, x < 128+4094)
	case vPatHi:
		return true
	case vPatAlt:
		return x&1 == 1
	case vPatMid:
		return vsym.And(x >= 20000, x < 26000)
	}
	return false
}

// concrete value range [lo,hi) of the range-shaped patterns
func vPatRange(pat int) (int, int) {
	switch pat {
	case vPatLo:
		return 0, 4160
	case vPatThr:
		return 128, 128 + 4094
	case vPatMid:
		return 20000, 26000
	}
	return 0, 0
}

func vPatWord(pat int, i int) uint64 {
	switch pat {
	case vPatHi:
		return ^uint64(0)
	case vPatAlt:
		return 0xAAAAAAAAAAAAAAAA
	case vPatZero:
		return 0
	}
	lo, hi := vPatRange(pat)
	a, b := i*64, i*64+64
	if a < lo {
		a = lo
	}
	if b > hi {
		b = hi
	}
	if a >= b {
		return 0
	}
	// bits a..b-1 of word i
	return (^uint64(0) << uint(a-i*64)) & (^uint64(0) >> uint(i*64+64-b))
}

func (d *vDesc) has(x uint16) bool {
	return vsym.And(!d.inactive, d.has0(x))
}

func (d *vDesc) has0(x uint16) bool {
	r := false
	switch d.kind {
	case vKOp:
		return vBoolOp(d.op, d.l.has(x), d.r.has(x))
	case vKArray:
		for _, e := range d.elems {
			r = vsym.Or(r, e == x)
		}
	case vKRun:
		for _, iv := range d.ivs {
			r = vsym.Or(r, vsym.And(iv.s <= x, uint32(x) <= uint32(iv.s)+uint32(iv.l)))
		}
	case vKBitmap:
		inFree := false
		for k, idx := range d.freeIdx {
			here := int(x>>6) == idx
			inFree = vsym.Or(inFree, here)
			r = vsym.Or(r, vsym.And(here, (d.freeVal[k]>>(x&63))&1 == 1))
		}
		r = vsym.Or(r, vsym.And(!inFree, vPatHas(d.pat, x)))
	}
	return r
}

// the 1024-word bit vector of the described set
func (d *vDesc) words() []uint64 {
	w := d.words0()
	if vsym.Concrete(uint64(vsym.B2I(d.inactive))) {
		if d.inactive {
			return make([]uint64, 1024)
		}
		return w
	}
	for i := range w {
		w[i] = vsym.IteU64(d.inactive, 0, w[i])
	}
	return w
}

func (d *vDesc) words0() []uint64 {
	w := make([]uint64, 1024)
	switch d.kind {
	case vKOp:
		wl, wr := d.l.words(), d.r.words()
		for i := range wl {
			wl[i] = vWordOp(d.op, wl[i], wr[i])
		}
		return wl
	case vKArray:
		for _, e := range d.elems {
			if vsym.Concrete(uint64(e)) {
				w[e>>6] |= uint64(1) << (e & 63)
			} else {
				for i := 0; i < 1024; i++ {
					w[i] |= vsym.IteU64(int(e>>6) == i, uint64(1)<<(e&63), 0)
				}
			}
		}
	case vKRun:
		for _, iv := range d.ivs {
			s, e := uint32(iv.s), uint32(iv.s)+uint32(iv.l)
			for i := 0; i < 1024; i++ {
				lo, hi := uint32(i*64), uint32(i*64+63)
				// bits max(s,lo)..min(e,hi)
				a := vsym.IteU32(s > lo, s, lo)
				b := vsym.IteU32(e < hi, e, hi)
				m := (^uint64(0) << (a & 63)) & (^uint64(0) >> (63 - (b & 63)))
				w[i] |= vsym.IteU64(a <= b, m, 0)
			}
		}
	case vKBitmap:
		for i := 0; i < 1024; i++ {
			w[i] = vPatWord(d.pat, i)
		}
		for k, idx := range d.freeIdx {
			w[idx] = d.freeVal[k]
		}
	}
	return w
}

func vPop64(w uint64) int { return vsym.PopCount64(w) }

func vPop64Concrete(w uint64) int {
	n := 0
	for w != 0 {
		w &= w - 1
		n++
	}
	return n
}

func vPopWords(w []uint64) int {
	n := 0
	for _, x := range w {
		n += vPop64(x)
	}
	return n
}

// free bit positions inside a free word
var vFreePos = [6]uint{0, 1, 31, 32, 62, 63}

func vFreeMask(nbits int) uint64 {
	var m uint64
	for i := 0; i < nbits; i++ {
		m |= uint64(1) << vFreePos[i]
	}
	return m
}

func (d *vDesc) card() int {
	return vsym.IteInt(d.inactive, 0, d.card0())
}

func (d *vDesc) card0() int {
	switch d.kind {
	case vKOp:
		return vCardOp(d.op, d.l, d.r)
	case vKArray:
		return len(d.elems)
	case vKRun:
		n := 0
		for _, iv := range d.ivs {
			n += int(iv.l) + 1
		}
		return n
	}
	n := 0
	for i := 0; i < 1024; i++ {
		isFree := false
		for _, idx := range d.freeIdx {
			if idx == i {
				isFree = true
			}
		}
		if !isFree {
			n += vPop64Concrete(vPatWord(d.pat, i))
		}
	}
	for k := range d.freeIdx {
		n += vPop64(d.freeVal[k])
	}
	return n
}

// ---------- generators (every generated container satisfies wf by construction / assumption)

// array with n fully symbolic strictly increasing elements
func vGenArray(n int) (*arrayContainer, *vDesc) {
	c := make([]uint16, n)
	for i := 0; i < n; i++ {
		c[i] = vsym.U16()
		if i > 0 {
			vsym.Assume(c[i-1] < c[i])
		}
	}
	d := &vDesc{kind: vKArray, elems: append([]uint16(nil), c...)}
	return &arrayContainer{content: c}, d
}

// backbone array: n elements, concrete multiples of step with k symbolic slots placed at
// positions spread over the array; a slot lies strictly between its neighbours.
func vGenArrayBackbone(n, k, step int) (*arrayContainer, *vDesc) {
	c := make([]uint16, n)
	for i := 0; i < n; i++ {
		c[i] = uint16(i * step)
	}
	for j := 0; j < k; j++ {
		pos := (j*2 + 1) * n / (2 * k)
		if step >= 2 {
			lo := uint16(0)
			if pos > 0 {
				lo = c[pos-1]
			}
			// slot in (c[pos-1], c[pos+1]) : anchored so that interval folding works
			span := uint16(2*step - 1)
			if pos == 0 {
				span = uint16(step)
			}
			msk := uint16(1)
			for msk*2 <= span {
				msk *= 2
			}
			delta := vsym.U16() & (msk - 1) // syntactically bounded window inside the gap
			v := lo + 1 + delta
			if pos == 0 {
				v = delta
			}
			if pos == n-1 {
				vsym.Assume(uint32(lo)+1+uint32(delta) <= 65535)
			}
			c[pos] = v
		}
	}
	d := &vDesc{kind: vKArray, elems: append([]uint16(nil), c...)}
	return &arrayContainer{content: c}, d
}

// run container with r symbolic intervals, lengths-1 <= maxLen (maxLen<0: free lengths)
func vGenRun(r int, maxLen int) (*runContainer16, *vDesc) {
	iv := make([]interval16, r)
	d := &vDesc{kind: vKRun}
	for i := 0; i < r; i++ {
		s := vsym.U16()
		l := vsym.U16()
		if maxLen >= 0 {
			vsym.Assume(l <= uint16(maxLen))
		}
		vsym.Assume(uint32(s)+uint32(l) <= 65535)
		if i > 0 {
			p := iv[i-1]
			vsym.Assume(uint32(p.start)+uint32(p.length)+1 < uint32(s))
		}
		iv[i] = interval16{start: s, length: l}
		d.ivs = append(d.ivs, vIv{s, l})
	}
	return &runContainer16{iv: iv}, d
}

// run container whose end points are anchored: interval i = [anchor[2i]+δ, anchor[2i+1]+δ'] with δ,δ' < 8.
func vGenRunAnchored(anchors []int) (*runContainer16, *vDesc) {
	r := len(anchors) / 2
	iv := make([]interval16, r)
	d := &vDesc{kind: vKRun}
	for i := 0; i < r; i++ {
		da, db := vsym.U16()&7, vsym.U16()&7
		s := uint16(anchors[2*i]) + da
		e := uint16(anchors[2*i+1]) + db
		vsym.Assume(s <= e)
		if i > 0 {
			p := iv[i-1]
			vsym.Assume(uint32(p.start)+uint32(p.length)+1 < uint32(s))
		}
		iv[i] = interval16{start: s, length: e - s}
		d.ivs = append(d.ivs, vIv{s, e - s})
	}
	return &runContainer16{iv: iv}, d
}

// array whose element j lies in the window [anchors[j], anchors[j]+7] (anchors far apart): symbolic word
// indices then take at most two values each, which keeps bitmap-chunk code tractable.
var vArrayAnchors = []int{60, 4156, 19996, 65528}

func vGenArrayAnchored(n int) (*arrayContainer, *vDesc) {
	c := make([]uint16, n)
	for i := 0; i < n; i++ {
		d := vsym.U16() & 7 // syntactically bounded: the engine's interval analysis sees [0,7]
		c[i] = uint16(vArrayAnchors[i]) + d
	}
	return &arrayContainer{content: c}, &vDesc{kind: vKArray, elems: append([]uint16(nil), c...)}
}

func vGenRunFull() (*runContainer16, *vDesc) {
	return &runContainer16{iv: []interval16{{0, 65535}}}, &vDesc{kind: vKRun, ivs: []vIv{{0, 65535}}}
}

// bitmap chunk: concrete base pattern, free words at freeIdx each with nbits symbolic bits
func vGenBitmapC(pat int, freeIdx []int, nbits int) (*bitmapContainer, *vDesc) {
	bc := newBitmapContainer()
	d := &vDesc{kind: vKBitmap, pat: pat, freeIdx: freeIdx}
	card := 0
	for i := 0; i < 1024; i++ {
		w := vPatWord(pat, i)
		bc.bitmap[i] = w
		card += vPop64Concrete(w)
	}
	fm := vFreeMask(nbits)
	for _, idx := range freeIdx {
		base := vPatWord(pat, idx)
		card -= vPop64Concrete(base)
		w := (base &^ fm) | (vsym.U64() & fm)
		bc.bitmap[idx] = w
		d.freeVal = append(d.freeVal, w)
		card += vPop64(w)
	}
	bc.cardinality = card
	return bc, d
}

// ---------- shapes: a small vocabulary addressed by integer codes (harness parameters)

// shape codes (per kind)
//
//	array : 1..4 = A(n) fully symbolic; 10 = A*(17;2;step 3000); 11 = A*(70;2;step 900); 12 = A*(4095;2;step 16); 13 = A*(4096;2;step 15);
//	run   : 1..3 = R(r; L<=param "L"); 11..13 = R(r; free lengths); 20 = full; 21 = anchored long run [0+δ, 65528+δ]; 22 = two anchored long runs
//	bitmap: 0 = B(lo; {0,64}; 2) 1 = B(lo;{0,65};4) 2 = B(thr;{0,1};4) 3 = B(hi;{0,1023};2) 4 = B(alt;{5};2) 5 = B(mid;{312,406};3) 6 = B(lo;{0,1,64};6)
func vGenContainer(kind, shape int) (container, *vDesc) {
	c, d := vGenContainer0(kind, shape)
	if rc, ok := c.(*runContainer16); ok && vsym.Param("eff") == 1 {
		// full invariant I: a run chunk is the smallest of the three representations (what Validate enforces)
		card := 0
		for _, iv := range rc.iv {
			card += int(iv.length) + 1
		}
		sz := 2 + 4*len(rc.iv)
		vsym.Assume(vsym.And(sz < 8192+bcBaseBytes, sz < 2*card))
	}
	if bc, ok := c.(*bitmapContainer); ok {
		if vsym.Param("eff") == 1 {
			vsym.Assume(bc.cardinality > arrayDefaultMaxSize)
		}
		vsym.Assume(bc.cardinality > 0) // no chunk is ever empty
	}
	return c, d
}

func vGenContainer0(kind, shape int) (container, *vDesc) {
	switch kind {
	case vKArray:
		switch {
		case shape <= 8:
			return vGenArray(shape)
		case shape == 10:
			return vGenArrayBackbone(17, 2, 3000)
		case shape == 11:
			return vGenArrayBackbone(70, 2, 900)
		case shape == 12:
			return vGenArrayBackbone(4095, 2, 16)
		case shape == 13:
			return vGenArrayBackbone(4096, 2, 15)
		case shape == 14:
			return vGenArrayBackbone(4096, 0, 16)
		case shape >= 21 && shape <= 24:
			return vGenArrayAnchored(shape - 20)
		case shape >= 31 && shape <= 34:
			// A(n) whose backing slice has spare capacity (as after a growing append or a shrinking in-place op)
			ac, d := vGenArray(shape - 30)
			big := make([]uint16, len(ac.content), 2*len(ac.content)+4)
			copy(big, ac.content)
			ac.content = big
			return ac, d
		}
	case vKRun:
		switch {
		case shape <= 8:
			return vGenRun(shape, vsym.Param("L"))
		case shape >= 11 && shape <= 18:
			return vGenRun(shape-10, -1)
		case shape == 20:
			return vGenRunFull()
		case shape == 21:
			return vGenRunAnchored([]int{0, 65528})
		case shape == 22:
			return vGenRunAnchored([]int{0, 30000, 30016, 65528})
		case shape == 23:
			return vGenRunAnchored([]int{64, 5000})
		case shape == 24:
			return vGenRunAnchored([]int{58, 66})
		case shape == 25:
			return vGenRunAnchored([]int{58, 66, 4150, 4170})
		case shape == 26:
			return vGenRunAnchored([]int{65512, 65528}) // may end exactly at 65535
		case shape == 27:
			return vGenRunAnchored([]int{0, 8}) // may start exactly at 0
		case shape == 28:
			return vGenRunAnchored([]int{64, 3000}) // ~2940 values: two of them sum to more than 4096, their union does not
		case shape == 29:
			// the same with concrete end points (converting a 3000-value bitmap chunk with symbolic words to an array forks per bit)
			return &runContainer16{iv: []interval16{{64, 2936}}}, &vDesc{kind: vKRun, ivs: []vIv{{64, 2936}}}
		}
	case vKBitmap:
		switch shape {
		case 0:
			return vGenBitmapC(vPatLo, []int{0, 64}, 2)
		case 1:
			return vGenBitmapC(vPatLo, []int{0, 65}, 4)
		case 2:
			return vGenBitmapC(vPatThr, []int{0, 1}, 4)
		case 3:
			return vGenBitmapC(vPatHi, []int{0, 1023}, 2)
		case 4:
			return vGenBitmapC(vPatAlt, []int{5}, 2)
		case 5:
			return vGenBitmapC(vPatMid, []int{312, 406}, 3)
		case 6:
			return vGenBitmapC(vPatLo, []int{0, 1, 64}, 6)
		case 7: // iterator walks: only the free bits are set (NOT a valid chunk: fewer than 4097 values; stated in DESIGN)
			return vGenBitmapC(vPatZero, []int{0, 1023}, 3)
		case 8:
			return vGenBitmapC(vPatZero, []int{5, 6}, 4)
		}
	}
	panic("vGenContainer: unknown kind/shape")
}

// ---------- representation decoders (harness side; never the library's observers)

func vKindOf(c container) int {
	switch c.(type) {
	case *arrayContainer:
		return vKArray
	case *bitmapContainer:
		return vKBitmap
	case *runContainer16:
		return vKRun
	}
	panic("unknown container type")
}

func vRunHas(iv []interval16, x uint16) bool {
	r := false
	for _, v := range iv {
		r = vsym.Or(r, vsym.And(v.start <= x, uint32(x) <= uint32(v.start)+uint32(v.length)))
	}
	return r
}

func vArrHas(c []uint16, x uint16) bool {
	r := false
	for _, v := range c {
		r = vsym.Or(r, v == x)
	}
	return r
}

// wf for one container (the representation invariant I of DESIGN §3.3). allowEmpty: kernels may return
// empty containers, which the drivers then drop.
func vWfArrayC(ac *arrayContainer, allowEmpty bool) {
	vsym.Assert(len(ac.content) <= arrayDefaultMaxSize, "wf-array-size")
	if !allowEmpty {
		vsym.Assert(len(ac.content) > 0, "wf-nonempty")
	}
	ok := true
	for i := 1; i < len(ac.content); i++ {
		ok = vsym.And(ok, ac.content[i-1] < ac.content[i])
	}
	vsym.Assert(ok, "wf-array-sorted")
}

func vWfRunC(rc *runContainer16, allowEmpty bool, efficient bool) {
	if !allowEmpty {
		vsym.Assert(len(rc.iv) > 0, "wf-nonempty")
	}
	ok := true
	card := 0
	for i := range rc.iv {
		ok = vsym.And(ok, uint32(rc.iv[i].start)+uint32(rc.iv[i].length) <= 65535)
		if i > 0 {
			ok = vsym.And(ok, uint32(rc.iv[i-1].start)+uint32(rc.iv[i-1].length)+1 < uint32(rc.iv[i].start))
		}
		card += int(rc.iv[i].length) + 1
	}
	vsym.Assert(ok, "wf-run-sorted-nonadjacent-nowrap")
	if efficient && len(rc.iv) > 0 {
		sz := 2 + 4*len(rc.iv)
		vsym.Assert(vsym.And(sz < 8192+bcBaseBytes, sz < 2*card), "wf-run-efficient")
	}
}

// ---------- exactness of a result container against a specification

type vSpec struct {
	has   func(x uint16) bool
	words func() []uint64
	card  func() int
}

// vCheckExact asserts that c denotes exactly the specified set and is well-formed.
// minimal: the result must be in the kind its cardinality prescribes (array <= 4096 < bitmap; efficient runs).
func vCheckExact(c container, sp vSpec, allowEmpty, minimal bool) {
	switch r := c.(type) {
	case *arrayContainer:
		vWfArrayC(r, allowEmpty)
		if len(r.content) <= 64 {
			x := vsym.U16()
			vsym.Assert(vArrHas(r.content, x) == sp.has(x), "exact-set")
		} else {
			// threshold shapes: the bit vector of the result equals the specified bit vector (linear in the size)
			rw := (&vDesc{kind: vKArray, elems: r.content}).words()
			sw := sp.words()
			eq := true
			for i := range rw {
				eq = vsym.And(eq, rw[i] == sw[i])
			}
			vsym.Assert(eq, "exact-words")
			vsym.Assert(len(r.content) == sp.card(), "exact-count")
		}
	case *runContainer16:
		vWfRunC(r, allowEmpty, minimal)
		x := vsym.U16()
		vsym.Assert(vRunHas(r.iv, x) == sp.has(x), "exact-set")
	case *bitmapContainer:
		vsym.Assert(len(r.bitmap) == 1024, "wf-bitmap-len")
		eq := true
		sw := sp.words()
		for i := 0; i < 1024; i++ {
			eq = vsym.And(eq, r.bitmap[i] == sw[i])
		}
		vsym.Assert(eq, "exact-words")
		vsym.Assert(r.cardinality == sp.card(), "wf-bitmap-cardinality")
		if minimal {
			vsym.Assert(r.cardinality > arrayDefaultMaxSize, "wf-bitmap-above-4096")
		}
	default:
		vsym.Assert(false, "unknown-result-kind")
	}
}

// snapshot of a container's representation, to assert that an operand was not modified
type vSnap struct {
	kind  int
	elems []uint16
	ivs   []interval16
	words []uint64
	card  int
}

func vSnapshot(c container) *vSnap {
	s := &vSnap{kind: vKindOf(c)}
	switch r := c.(type) {
	case *arrayContainer:
		s.elems = append([]uint16(nil), r.content...)
	case *runContainer16:
		s.ivs = append([]interval16(nil), r.iv...)
	case *bitmapContainer:
		s.words = append([]uint64(nil), r.bitmap...)
		s.card = r.cardinality
	}
	return s
}

func vUnchanged(c container, s *vSnap, label string) {
	if vKindOf(c) != s.kind {
		vsym.Assert(false, label)
		return
	}
	ok := true
	switch r := c.(type) {
	case *arrayContainer:
		if len(r.content) != len(s.elems) {
			vsym.Assert(false, label)
			return
		}
		for i := range s.elems {
			ok = vsym.And(ok, r.content[i] == s.elems[i])
		}
	case *runContainer16:
		if len(r.iv) != len(s.ivs) {
			vsym.Assert(false, label)
			return
		}
		for i := range s.ivs {
			ok = vsym.And(ok, vsym.And(r.iv[i].start == s.ivs[i].start, r.iv[i].length == s.ivs[i].length))
		}
	case *bitmapContainer:
		for i := range s.words {
			ok = vsym.And(ok, r.bitmap[i] == s.words[i])
		}
		ok = vsym.And(ok, r.cardinality == s.card)
	}
	vsym.Assert(ok, label)
}
