//go:build verif

package roaring

import "github.com/RoaringBitmap/roaring/v2/internal/vsym"

func init() {
	vsym.Register("VerifC01ContainerBinop", VerifC01ContainerBinop)
	vsym.Register("VerifC01Kernels", VerifC01Kernels)
	vsym.Register("VerifC01BitmapBinop", VerifC01BitmapBinop)
}

const (
	vOpAnd = iota
	vOpOr
	vOpXor
	vOpAndNot
	vOpIAnd
	vOpIOr
	vOpIXor
	vOpIAndNot
	vOpLazyOr
	vOpLazyIOr
	vOpAndCard
	vOpOrCard
	vOpIntersects
	vOpEquals
)

func vBoolOp(op int, a, b bool) bool {
	switch op {
	case vOpAnd, vOpIAnd:
		return vsym.And(a, b)
	case vOpOr, vOpIOr, vOpLazyOr, vOpLazyIOr:
		return vsym.Or(a, b)
	case vOpXor, vOpIXor:
		return a != b
	case vOpAndNot, vOpIAndNot:
		return vsym.And(a, !b)
	}
	panic("vBoolOp")
}

func vWordOp(op int, a, b uint64) uint64 {
	switch op {
	case vOpAnd, vOpIAnd:
		return a & b
	case vOpOr, vOpIOr, vOpLazyOr, vOpLazyIOr:
		return a | b
	case vOpXor, vOpIXor:
		return a ^ b
	case vOpAndNot, vOpIAndNot:
		return a &^ b
	}
	panic("vWordOp")
}

// |A ∩ B| from descriptions, without bit vectors where possible
func vCountAnd(da, db *vDesc) int {
	return vsym.IteInt(vsym.Or(da.inactive, db.inactive), 0, vCountAnd0(da, db))
}

func vCountAnd0(da, db *vDesc) int {
	if da.kind == vKArray {
		n := 0
		for _, e := range da.elems {
			n += vsym.B2I(db.has(e))
		}
		return n
	}
	if db.kind == vKArray {
		return vCountAnd0(db, da)
	}
	if da.kind == vKRun && db.kind == vKRun {
		n := 0
		for _, x := range da.ivs {
			for _, y := range db.ivs {
				xs, xe := int(x.s), int(x.s)+int(x.l)
				ys, ye := int(y.s), int(y.s)+int(y.l)
				lo := vsym.IteInt(xs > ys, xs, ys)
				hi := vsym.IteInt(xe < ye, xe, ye)
				n += vsym.IteInt(lo <= hi, hi-lo+1, 0)
			}
		}
		return n
	}
	wa, wb := da.words(), db.words()
	n := 0
	for i := range wa {
		n += vPop64(wa[i] & wb[i])
	}
	return n
}

// |A op B| from descriptions
func vCardOp(op int, da, db *vDesc) int {
	n := vCountAnd(da, db)
	switch op {
	case vOpAnd, vOpIAnd:
		return n
	case vOpOr, vOpIOr, vOpLazyOr, vOpLazyIOr:
		return da.card() + db.card() - n
	case vOpXor, vOpIXor:
		return da.card() + db.card() - 2*n
	case vOpAndNot, vOpIAndNot:
		return da.card() - n
	}
	panic("vCardOp")
}

// VerifC01ContainerBinop: one container-level binary operation on one (kind,shape)x(kind,shape) pairing.
//
//	params: op, ka, sa, kb, sb, L (max run length-1 for R shapes), inv (1 = invariant-only mode used by C09)
func VerifC01ContainerBinop() {
	op := vsym.Param("op")
	inv := vsym.Param("inv") == 1
	a, da := vGenContainer(vsym.Param("ka"), vsym.Param("sa"))
	var b container
	var db *vDesc
	same := vsym.Param("kb") < 0 // kb = -1: the operation is applied to one and the same container object
	if same {
		b, db = a, da
	} else {
		b, db = vGenContainer(vsym.Param("kb"), vsym.Param("sb"))
	}
	snapA, snapB := vSnapshot(a), vSnapshot(b)
	sp := vSpec{
		has: func(x uint16) bool { return vBoolOp(op, da.has(x), db.has(x)) },
		words: func() []uint64 {
			wa, wb := da.words(), db.words()
			for i := range wa {
				wa[i] = vWordOp(op, wa[i], wb[i])
			}
			return wa
		},
		card: func() int { return vCardOp(op, da, db) },
	}
	var r container
	switch op {
	case vOpAnd:
		r = a.and(b)
	case vOpOr:
		r = a.or(b)
	case vOpXor:
		r = a.xor(b)
	case vOpAndNot:
		r = a.andNot(b)
	case vOpIAnd:
		r = a.iand(b)
	case vOpIOr:
		r = a.ior(b)
	case vOpIXor:
		r = a.ixor(b)
	case vOpIAndNot:
		r = a.iandNot(b)
	case vOpLazyOr:
		r = repairAfterLazy(a.lazyOR(b))
	case vOpLazyIOr:
		r = repairAfterLazy(a.lazyIOR(b))
	case vOpAndCard:
		n := a.andCardinality(b)
		vsym.Observe(uint64(n))
		if !inv {
			vsym.Assert(n == vCountAnd(da, db), "shortcut-value")
		}
	case vOpOrCard:
		n := a.orCardinality(b)
		vsym.Observe(uint64(n))
		if !inv {
			vsym.Assert(n == da.card()+db.card()-vCountAnd(da, db), "shortcut-value")
		}
	case vOpIntersects:
		v := a.intersects(b)
		vsym.ObserveBool(v)
		if !inv {
			vsym.Assert(v == (vCountAnd(da, db) > 0), "shortcut-value")
		}
	case vOpEquals:
		v := a.equals(b)
		vsym.ObserveBool(v)
		if !inv {
			n := vCountAnd(da, db)
			vsym.Assert(v == vsym.And(n == da.card(), n == db.card()), "shortcut-value")
		}
	}
	if r != nil {
		vsym.Observe(uint64(vKindOf(r)))
		if inv {
			vCheckWf(r, true, true)
			if !r.isEmpty() {
				vsym.Assert(r.validate() == nil, "validate")
			}
		} else {
			vCheckExact(r, sp, true, false)
		}
	}
	inPlace := op == vOpIAnd || op == vOpIOr || op == vOpIXor || op == vOpIAndNot || op == vOpLazyIOr
	if !inPlace {
		vUnchanged(a, snapA, "lhs-unchanged")
	}
	if !(same && inPlace) {
		vUnchanged(b, snapB, "rhs-unchanged")
	}
	vsym.Reach("end")
}

// vCheckWf: representation invariant only (C09 mode)
func vCheckWf(c container, allowEmpty, minimal bool) {
	switch r := c.(type) {
	case *arrayContainer:
		vWfArrayC(r, allowEmpty)
	case *runContainer16:
		vWfRunC(r, allowEmpty, minimal)
	case *bitmapContainer:
		vsym.Assert(len(r.bitmap) == 1024, "wf-bitmap-len")
		vsym.Assert(r.cardinality == vPopWords(r.bitmap), "wf-bitmap-cardinality")
		if minimal {
			vsym.Assert(r.cardinality > arrayDefaultMaxSize, "wf-bitmap-above-4096")
		}
	}
}

// VerifC01Kernels: the sorted-array kernels on arbitrary (not container-produced) buffers.
//
//	params: k (kernel), n, m
func VerifC01Kernels() {
	k, n, m := vsym.Param("k"), vsym.Param("n"), vsym.Param("m")
	a := vSorted(n)
	b := vSorted(m)
	x := vsym.U16()
	ha, hb := vMember16(a, x), vMember16(b, x)
	cnt := func(op int) int {
		c := 0
		for _, e := range a {
			inb := vMember16(b, e)
			switch op {
			case vOpAnd:
				c += vsym.B2I(inb)
			case vOpAndNot, vOpXor:
				c += vsym.B2I(!inb)
			}
		}
		if op == vOpXor || op == vOpOr {
			for _, e := range b {
				c += vsym.B2I(!vMember16(a, e))
			}
		}
		if op == vOpOr {
			c += len(a)
		}
		return c
	}
	sorted := func(s []uint16) bool {
		ok := true
		for i := 1; i < len(s); i++ {
			ok = vsym.And(ok, s[i-1] < s[i])
		}
		return ok
	}
	switch k {
	case 0: // union2by2
		buf := make([]uint16, n+m)
		r := union2by2(a, b, buf)
		vsym.Observe(uint64(r))
		vsym.Assert(vMember16(buf[:r], x) == vsym.Or(ha, hb), "exact-set")
		vsym.Assert(sorted(buf[:r]), "sorted")
		vsym.Assert(r == cnt(vOpOr), "count")
		vsym.Assert(union2by2Cardinality(a, b) == r, "cardinality-twin")
	case 1: // intersection2by2 (dispatches to galloping when sizes differ by 64x)
		buf := make([]uint16, n+m)
		r := intersection2by2(a, b, buf)
		vsym.Observe(uint64(r))
		vsym.Assert(vMember16(buf[:r], x) == vsym.And(ha, hb), "exact-set")
		vsym.Assert(sorted(buf[:r]), "sorted")
		vsym.Assert(intersection2by2Cardinality(a, b) == r, "cardinality-twin")
		vsym.Assert(intersects2by2(a, b) == (r > 0), "intersects-twin")
	case 2: // difference
		buf := make([]uint16, n+m)
		r := difference(a, b, buf)
		vsym.Observe(uint64(r))
		vsym.Assert(vMember16(buf[:r], x) == vsym.And(ha, !hb), "exact-set")
		vsym.Assert(sorted(buf[:r]), "sorted")
	case 3: // exclusiveUnion2by2
		buf := make([]uint16, n+m)
		r := exclusiveUnion2by2(a, b, buf)
		vsym.Observe(uint64(r))
		vsym.Assert(vMember16(buf[:r], x) == (ha != hb), "exact-set")
		vsym.Assert(sorted(buf[:r]), "sorted")
	case 4: // difference in place (buffer == set1), as iandNot uses it
		a2 := append([]uint16(nil), a...)
		r := difference(a2, b, a2)
		vsym.Assert(vMember16(a2[:r], x) == vsym.And(ha, !hb), "exact-set")
		vsym.Assert(sorted(a2[:r]), "sorted")
	case 5: // intersection in place (buffer == set1), as iand uses it
		a2 := append([]uint16(nil), a...)
		r := intersection2by2(a2, b, a2)
		vsym.Assert(vMember16(a2[:r], x) == vsym.And(ha, hb), "exact-set")
		vsym.Assert(sorted(a2[:r]), "sorted")
	case 6: // one-sided galloping intersection called directly (small, large)
		buf := make([]uint16, n)
		r := onesidedgallopingintersect2by2(a, b, buf)
		vsym.Assert(vMember16(buf[:r], x) == vsym.And(ha, hb), "exact-set")
		vsym.Assert(sorted(buf[:r]), "sorted")
		vsym.Assert(onesidedgallopingintersect2by2Cardinality(a, b) == r, "cardinality-twin")
	case 7: // binarySearch / advanceUntil
		if n > 0 {
			i := binarySearch(a, x)
			vsym.Observe(uint64(int64(i)))
			vsym.Assert((i >= 0) == ha, "bsearch-found")
			pos := 0
			for _, e := range a {
				pos += vsym.B2I(e < x)
			}
			vsym.Assert(vsym.Implies(i >= 0, i == pos), "bsearch-index")
			vsym.Assert(vsym.Implies(i < 0, -i-1 == pos), "bsearch-insertion-point")
			p := vsym.Int()
			vsym.Assume(p >= -1)
			vsym.Assume(p < n)
			j := advanceUntil(a, p, n, x)
			// smallest index > p with a[j] >= x, or n
			want := n
			for q := n - 1; q >= 0; q-- {
				want = vsym.IteInt(vsym.And(q > p, a[q] >= x), q, want)
			}
			vsym.Assert(j == want, "advance-until")
		}
	}
	vsym.Reach("end")
}

// |A ∩ B| at bitmap level
func vBCountAnd(da, db *vBDesc) int {
	n := 0
	for i, ka := range da.keys {
		for j, kb := range db.keys {
			n += vsym.IteInt(ka == kb, vCountAnd(da.cs[i], db.cs[j]), 0)
		}
	}
	return n
}

// VerifC01BitmapBinop: the Bitmap-level drivers on M(k1) x M(k2) with symbolic keys (all alignments).
//
//	params: op (0 and,1 or,2 xor,3 andNot), form (0 static, 1 in-place, 2 in-place with itself, 3 static with itself,
//	        4 cardinality/predicate shortcuts), a* and b* bitmap generator params
func VerifC01BitmapBinop() {
	op, form := vsym.Param("op"), vsym.Param("form")
	a, da := vGenBitmap("a")
	var b *Bitmap
	var db *vBDesc
	if form == 2 || form == 3 {
		b, db = a, da
	} else {
		b, db = vGenBitmap("b")
	}
	snapA, snapB := vBSnapshot(a), vBSnapshot(b)
	spec := func(x uint32) bool { return vBoolOp(op, da.has(x), db.has(x)) }
	nAnd := vBCountAnd(da, db)
	card := 0
	switch op {
	case vOpAnd:
		card = nAnd
	case vOpOr:
		card = da.card() + db.card() - nAnd
	case vOpXor:
		card = da.card() + db.card() - 2*nAnd
	case vOpAndNot:
		card = da.card() - nAnd
	}
	var r *Bitmap
	switch form {
	case 0, 3:
		switch op {
		case vOpAnd:
			r = And(a, b)
		case vOpOr:
			r = Or(a, b)
		case vOpXor:
			r = Xor(a, b)
		case vOpAndNot:
			r = AndNot(a, b)
		}
		vBUnchanged(a, snapA, "lhs-unchanged")
	case 1, 2:
		switch op {
		case vOpAnd:
			a.And(b)
		case vOpOr:
			a.Or(b)
		case vOpXor:
			a.Xor(b)
		case vOpAndNot:
			a.AndNot(b)
		}
		r = a
	case 4:
		vsym.Assert(a.AndCardinality(b) == uint64(nAnd), "shortcut-value")
		vsym.Assert(a.OrCardinality(b) == uint64(da.card()+db.card()-nAnd), "shortcut-value")
		vsym.Assert(a.Intersects(b) == (nAnd > 0), "shortcut-value")
		vBUnchanged(a, snapA, "lhs-unchanged")
	}
	if r != nil {
		chunk := func(key uint16) vSpec {
			sa, sb := da.chunkSpec(key), db.chunkSpec(key)
			return vSpec{
				has: func(lo uint16) bool { return vBoolOp(op, sa.has(lo), sb.has(lo)) },
				words: func() []uint64 {
					wa, wb := sa.words(), sb.words()
					for i := range wa {
						wa[i] = vWordOp(op, wa[i], wb[i])
					}
					return wa
				},
				card: func() int {
					wa, wb := sa.words(), sb.words()
					n := 0
					for i := range wa {
						n += vPop64(vWordOp(op, wa[i], wb[i]))
					}
					return n
				},
			}
		}
		if vsym.Param("inv") == 1 {
			vBitmapWf(r, true)
			vsym.Assert(r.Validate() == nil, "validate")
		} else {
			vBitmapExact(r, vBSpec{has: spec, card: card, chunk: chunk}, false)
		}
		vsym.Observe(uint64(len(r.highlowcontainer.keys)))
	}
	if form != 2 {
		vBUnchanged(b, snapB, "rhs-unchanged")
	}
	vsym.Reach("end")
}
