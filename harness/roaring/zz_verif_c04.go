//go:build verif

package roaring

import "github.com/RoaringBitmap/roaring/v2/internal/vsym"

func init() {
	vsym.Register("VerifC04Walk", VerifC04Walk)
	vsym.Register("VerifC04Protocol", VerifC04Protocol)
	vsym.Register("VerifC04Unset", VerifC04Unset)
	vsym.Register("VerifC04Ranges", VerifC04Ranges)
}

// sequence checker: values must be strictly monotone, members, and in the end exactly card many
type vSeqCheck struct {
	d    *vBDesc
	n    int
	prev uint32
	desc bool
	ok   bool
}

func (s *vSeqCheck) push(v uint32) {
	s.ok = vsym.And(s.ok, s.d.has(v))
	if s.n > 0 {
		if s.desc {
			s.ok = vsym.And(s.ok, v < s.prev)
		} else {
			s.ok = vsym.And(s.ok, v > s.prev)
		}
	}
	s.prev = v
	s.n++
}

// VerifC04Walk: exhaustive enumeration protocols.
//
//	params: w (0 Iterator, 1 ReverseIterator, 2 Iterate, 3 Values, 4 Backward, 5 NextMany, 6 NextMany64), stop (early stop after this many values, -1 never), a*
func VerifC04Walk() {
	w, stop := vsym.Param("w"), vsym.Param("stop")
	a, da := vGenBitmap("a")
	card := da.card()
	sc := &vSeqCheck{d: da, ok: true, desc: w == 1 || w == 4}
	calls := 0
	cb := func(v uint32) bool {
		calls++
		sc.push(v)
		return !(stop >= 0 && sc.n >= stop)
	}
	limit := 70 // all shapes used here have at most 64 members
	switch w {
	case 0:
		it := a.Iterator()
		for it.HasNext() && sc.n < limit {
			p := it.PeekNext()
			v := it.Next()
			vsym.Assert(p == v, "peek-equals-next")
			sc.push(v)
		}
		vsym.Assert(!it.HasNext(), "hasnext-after-end")
	case 1:
		it := a.ReverseIterator()
		for it.HasNext() && sc.n < limit {
			sc.push(it.Next())
		}
		vsym.Assert(!it.HasNext(), "hasnext-after-end")
	case 2:
		a.Iterate(cb)
	case 3:
		Values(a)(cb)
	case 4:
		Backward(a)(cb)
	case 5, 6:
		it := a.ManyIterator()
		for round := 0; round < limit; round++ {
			bl := vsym.Choice(4) // buffer length 0..3
			var got int
			if w == 5 {
				buf := make([]uint32, bl)
				got = it.NextMany(buf)
				vsym.Assert(got <= bl, "nextmany-overfill")
				for i := 0; i < got && i < bl; i++ {
					sc.push(buf[i])
				}
			} else {
				buf := make([]uint64, bl)
				hs := uint64(vsym.U32()) << 32
				got = it.NextMany64(hs, buf)
				vsym.Assert(got <= bl, "nextmany-overfill")
				okHi := true
				for i := 0; i < got && i < bl; i++ {
					okHi = vsym.And(okHi, buf[i]&^0xFFFFFFFF == hs)
					sc.push(uint32(buf[i]))
				}
				vsym.Assert(okHi, "nextmany64-high-bits")
			}
			if bl > 0 && got < bl {
				// a short read only at the end
				vsym.Assert(sc.n == card, "nextmany-short-read-before-end")
				break
			}
			if bl == 0 {
				vsym.Assert(got == 0, "nextmany-zero-buffer")
				if round >= 1 {
					break
				}
			}
			if sc.n >= card+1 {
				break
			}
		}
	}
	vsym.Assert(sc.ok, "order-and-membership")
	if stop >= 0 && (w == 2 || w == 3 || w == 4) {
		want := vsym.IteInt(card < stop, card, stop)
		if stop == 0 {
			want = vsym.IteInt(card < 1, card, 1)
		}
		vsym.Assert(calls == want, "early-stop")
	} else if w <= 4 {
		vsym.Assert(sc.n == card, "count")
	} else {
		vsym.Assert(sc.n <= card, "count")
	}
	vsym.Observe(uint64(sc.n))
	vsym.Reach("end")
}

// VerifC04Protocol: a call string over {Next, PeekNext, AdvanceIfNeeded(m)} with HasNext observed before every call,
// against a model cursor p = number of elements consumed.
//
//	params: steps, a*, xb, xm (window of the AdvanceIfNeeded argument)
func VerifC04Protocol() {
	steps := vsym.Param("steps")
	a, da := vGenBitmap("a")
	card := da.card()
	it := a.Iterator()
	p := 0
	for s := 0; s < steps; s++ {
		has := it.HasNext()
		vsym.Assert(has == (p < card), "hasnext")
		switch vsym.Choice(3) {
		case 0:
			if has {
				v := it.Next()
				vsym.Assert(vsym.And(da.has(v), da.countLE(v) == p+1), "next")
				p++
			}
		case 1:
			if has {
				v := it.PeekNext()
				vsym.Assert(vsym.And(da.has(v), da.countLE(v) == p+1), "peeknext")
			}
		case 2:
			m := vArg32()
			it.AdvanceIfNeeded(m)
			below := da.countLT(uint64(m))
			p = vsym.IteInt(below > p, below, p)
		}
	}
	vsym.Assert(it.HasNext() == (p < card), "hasnext")
	vsym.Reach("end")
}

// VerifC04Unset: UnsetIterator(a,b) / Unset(min,max) over a window of width <= 6.
//
//	params: u (0 UnsetIterator walk, 1 Unset seq, 2 UnsetIterator with one AdvanceIfNeeded), a*, sb, sm (window start), wd (max width)
func VerifC04Unset() {
	u := vsym.Param("u")
	a, da := vGenBitmap("a")
	s := uint64(vsym.Param("sb")) + (vsym.U64() & uint64(vsym.Param("sm")))
	e := s + (vsym.U64() & 7)
	vsym.Assume(e-s <= uint64(vsym.Param("wd")))
	vsym.Assume(e <= 1<<32)
	inSet := vsym.IteInt(s < e, da.countLT(e)-da.countLT(s), 0)
	want := int(e-s) - inSet
	n := 0
	ok := true
	var prev uint32
	push := func(v uint32) bool {
		ok = vsym.And(ok, vsym.And(vsym.And(uint64(v) >= s, uint64(v) < e), !da.has(v)))
		if n > 0 {
			ok = vsym.And(ok, v > prev)
		}
		prev = v
		n++
		return true
	}
	switch u {
	case 0, 2:
		it := a.UnsetIterator(s, e)
		skipped := 0
		if u == 2 {
			m := uint32(s) + (vsym.U32() & 7)
			it.AdvanceIfNeeded(m)
			// absent values of [s,e) below m are skipped
			mm := vsym.IteU64(uint64(m) < e, uint64(m), e)
			inBelow := vsym.IteInt(s < mm, da.countLT(mm)-da.countLT(s), 0)
			skipped = vsym.IteInt(s < mm, int(mm-s)-inBelow, 0)
			s2 := mm
			_ = s2
		}
		for it.HasNext() && n < 9 {
			pk := it.PeekNext()
			v := it.Next()
			vsym.Assert(pk == v, "peek-equals-next")
			push(v)
		}
		vsym.Assert(!it.HasNext(), "hasnext-after-end")
		want -= skipped
	case 1:
		if s < e {
			Unset(a, uint32(s), uint32(e-1))(push)
		} else {
			want = 0
		}
	}
	vsym.Assert(ok, "unset-values")
	vsym.Assert(n == want, "unset-count")
	vsym.Observe(uint64(n))
	vsym.Reach("end")
}

// VerifC04Ranges: maximal, disjoint, non-adjacent half-open intervals whose union is the bitmap.
//
//	params: stop (-1 never), a*
func VerifC04Ranges() {
	stop := vsym.Param("stop")
	a, da := vGenBitmap("a")
	var ss []uint32
	var es []uint64
	calls := 0
	a.Ranges()(func(s uint32, e uint64) bool {
		calls++
		ss = append(ss, s)
		es = append(es, e)
		return !(stop >= 0 && calls >= stop) && calls < 40
	})
	ok := true
	for i := range ss {
		ok = vsym.And(ok, uint64(ss[i]) < es[i])
		ok = vsym.And(ok, es[i] <= 1<<32)
		if i > 0 {
			ok = vsym.And(ok, es[i-1] < uint64(ss[i])) // disjoint and not adjacent
		}
	}
	vsym.Assert(ok, "ranges-wellformed")
	y := vsym.U32()
	in := false
	for i := range ss {
		in = vsym.Or(in, vsym.And(uint64(ss[i]) <= uint64(y), uint64(y) < es[i]))
	}
	if stop < 0 {
		vsym.Assert(in == da.has(y), "ranges-union")
	} else {
		// a prefix of the ranges: everything yielded is in the set, and nothing below the last end is missing
		vsym.Assert(vsym.Implies(in, da.has(y)), "ranges-union")
		if len(es) > 0 {
			vsym.Assert(vsym.Implies(vsym.And(da.has(y), uint64(y) < es[len(es)-1]), in), "ranges-prefix-complete")
		}
		vsym.Assert(calls <= stop || stop == 0 && calls <= 1, "early-stop")
	}
	vsym.Observe(uint64(len(ss)))
	vsym.Reach("end")
}
