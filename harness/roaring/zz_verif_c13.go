//go:build verif

package roaring

import (
	"bytes"

	"github.com/RoaringBitmap/roaring/v2/internal/vsym"
)

func init() {
	vsym.Register("VerifC13Frozen", VerifC13Frozen)
	vsym.Register("VerifC08Buffer", VerifC08Buffer)
}

// independent parse of the CRoaring frozen layout (written from the format description):
// [bitset arena][run arena][array arena][keys u16*n][counts u16*n][typecodes u8*n][u32: cookie(15 bits) | n<<15]
// returns membership of x and whether the structure is conformant with the description d.
func vFrozenParse(data []byte, d *vBDesc, x uint32) (member bool, ok bool) {
	n := len(d.keys)
	ok = true
	if len(data) < 4+5*n {
		return false, false
	}
	hdr := vLE32(data, len(data)-4)
	ok = vsym.And(ok, hdr&0x7fff == 13766)
	ok = vsym.And(ok, int(hdr>>15) == n)
	tp := len(data) - 4 - n
	cp := tp - 2*n
	kp := cp - 2*n
	nb, nrEl, naEl := 0, 0, 0
	for i := 0; i < n; i++ {
		c := d.cs[i]
		ok = vsym.And(ok, vLE16(data, kp+2*i) == d.keys[i])
		switch c.kind {
		case vKBitmap:
			ok = vsym.And(ok, data[tp+i] == 1)
			ok = vsym.And(ok, int(vLE16(data, cp+2*i)) == c.card()-1)
			nb++
		case vKArray:
			ok = vsym.And(ok, data[tp+i] == 2)
			ok = vsym.And(ok, int(vLE16(data, cp+2*i)) == len(c.elems)-1)
			naEl += len(c.elems)
		case vKRun:
			ok = vsym.And(ok, data[tp+i] == 3)
			ok = vsym.And(ok, int(vLE16(data, cp+2*i)) == len(c.ivs))
			nrEl += len(c.ivs)
		}
	}
	if kp != 8192*nb+4*nrEl+2*naEl {
		return false, false
	}
	bp, rp, ap := 0, 8192*nb, 8192*nb+4*nrEl
	hi, lo := uint16(x>>16), uint16(x)
	for i := 0; i < n; i++ {
		c := d.cs[i]
		in := false
		switch c.kind {
		case vKBitmap:
			w := int(lo >> 6)
			var word uint64
			for b := 0; b < 8; b++ {
				word |= uint64(data[bp+8*w+b]) << (8 * uint(b))
			}
			in = (word>>(lo&63))&1 == 1
			bp += 8192
		case vKArray:
			for range c.elems {
				in = vsym.Or(in, vLE16(data, ap) == lo)
				ap += 2
			}
		case vKRun:
			for range c.ivs {
				s, l := vLE16(data, rp), vLE16(data, rp+2)
				in = vsym.Or(in, vsym.And(s <= lo, uint32(lo) <= uint32(s)+uint32(l)))
				rp += 4
			}
		}
		member = vsym.Or(member, vsym.And(d.keys[i] == hi, in))
	}
	return member, ok
}

// VerifC13Frozen: the three frozen writers agree, sizes are exact, the layout is CRoaring's, FrozenView reads it back.
//
//	params: slack (FreezeTo buffer = need + slack; -1: too small), view (0 FrozenView, 1 MustFrozenView), a*, xb, xm
func VerifC13Frozen() {
	a, da := vGenBitmap("a")
	snap := vBSnapshot(a)
	need := int(a.GetFrozenSizeInBytes())
	f1, err := a.Freeze()
	vsym.Assert(err == nil, "freeze-ok")
	vsym.Assert(len(f1) == need, "frozen-size")
	vsym.Observe(uint64(need))
	// FreezeTo
	slack := vsym.Param("slack")
	if need+slack >= 0 {
		buf := make([]byte, need+slack)
		if vsym.Param("arena") == 1 {
			// a too-short slot carved from a larger backing array: the capacity reaches the frozen size, the length does not
			big := make([]byte, need+slack+16)
			buf = big[:need+slack]
		}
		for i := range buf {
			buf[i] = 0xEE
		}
		n2, err2 := a.FreezeTo(buf)
		if slack < 0 {
			vsym.Assert(err2 != nil, "freezeto-too-small-error")
			untouched := true
			for i := range buf {
				untouched = vsym.And(untouched, buf[i] == 0xEE)
			}
			vsym.Assert(untouched, "freezeto-too-small-wrote")
		} else {
			vsym.Assert(err2 == nil, "freezeto-ok")
			vsym.Assert(n2 == need, "freezeto-count")
			same := true
			for i := 0; i < need; i++ {
				same = vsym.And(same, buf[i] == f1[i])
			}
			vsym.Assert(same, "freezeto-bytes")
		}
	}
	// WriteFrozenTo
	var w bytes.Buffer
	n3, err3 := a.WriteFrozenTo(&w)
	vsym.Assert(err3 == nil, "writefrozen-ok")
	vsym.Assert(n3 == need, "writefrozen-count")
	f3 := w.Bytes()
	same := len(f3) == need
	for i := 0; i < need && i < len(f3); i++ {
		same = vsym.And(same, f3[i] == f1[i])
	}
	vsym.Assert(same, "writefrozen-bytes")
	vBUnchanged(a, snap, "freeze-read-only")
	// layout
	x := vArg32()
	member, ok := vFrozenParse(f1, da, x)
	vsym.Assert(ok, "frozen-layout")
	vsym.Assert(member == da.has(x), "frozen-decoded-set")
	// view
	f1 = vsym.FrozenCopy(f1)
	b := NewBitmap()
	if vsym.Param("view") == 0 {
		err = b.FrozenView(f1)
	} else {
		err = b.MustFrozenView(f1)
	}
	vsym.Assert(err == nil, "view-ok")
	vBitmapExact(b, da.spec(), false)
	vsym.Assert(b.Equals(a), "view-equals-original")
	vsym.Assert(b.Validate() == nil, "view-validates")
	ra := &b.highlowcontainer
	flags := ra.copyOnWrite
	for i := range ra.needCopyOnWrite {
		flags = vsym.And(flags, ra.needCopyOnWrite[i])
	}
	vsym.Assert(flags, "view-copy-on-write-set")
	// one (copying) write and one query
	had := da.has(x)
	vsym.Assert(b.CheckedAdd(x) == !had, "view-usable")
	vBitmapExact(b, da.withPoint(vOpOr, x).spec(), false)
	vsym.Reach("end")
}

// VerifC08Buffer: a bitmap loaded zero-copy from a caller buffer (write-protected in the VM) never writes it, whatever
// mutations follow; after CloneCopyOnWriteContainers the buffer can be scribbled over.
//
//	params: ld (0 FromBuffer, 1 FromUnsafeBytes, 2 FrozenView), steps, detach (1: detach then overwrite buffer), reuse (1: the receiver was used and cleared before), a*, b* (partner bitmap), xb, xm
func VerifC08Buffer() {
	a, da := vGenBitmap("a")
	var data []byte
	var err error
	ld := vsym.Param("ld")
	if ld == 2 {
		data, err = a.Freeze()
	} else {
		data, err = a.ToBytes()
	}
	vsym.Assert(err == nil, "write-ok")
	buf := vsym.FrozenCopy(data) // the caller's (read-only) buffer
	z := NewBitmap()
	if vsym.Param("reuse") == 1 {
		// a receiver that has been used before: its flag slice is longer than needed and holds stale values
		z.Add(5)
		z.Add(1<<20 | 7)
		z.Add(1<<21 | 7)
		z.Add(1<<22 | 7)
		z.Clear()
	}
	switch ld {
	case 0:
		_, err = z.FromBuffer(buf)
	case 1:
		_, err = z.FromUnsafeBytes(buf)
	case 2:
		err = z.FrozenView(buf)
	}
	vsym.Assert(err == nil, "load-ok")
	model := da
	if vsym.Param("detach") == 1 {
		z.CloneCopyOnWriteContainers()
		vsym.Thaw(buf)
		for i := range buf {
			buf[i] = vsym.U8() // the caller reuses its buffer
		}
		vBitmapExact(z, model.spec(), false)
	}
	var o *Bitmap
	var dob *vBDesc
	steps := vsym.Param("steps")
	for s := 0; s < steps; s++ {
		switch vsym.Param("c" + vDigits[s]) {
		case 0:
			x := vArg32()
			z.Add(x)
			model = model.withPoint(vOpOr, x)
		case 1:
			x := vArg32()
			z.Remove(x)
			model = model.withPoint(vOpAndNot, x)
		case 2:
			st, e := vRangeArgs()
			z.AddRange(st, e)
			model = model.withRange(vOpOr, st, e, 0, 4)
		case 3:
			st, e := vRangeArgs()
			z.RemoveRange(st, e)
			model = model.withRange(vOpAndNot, st, e, 0, 4)
		case 4:
			st, e := vRangeArgs()
			z.Flip(st, e)
			model = model.withRange(vOpXor, st, e, 0, 4)
		case 5, 6, 7:
			// in-place set operation with a partner, zero-copy bitmap as receiver
			if o == nil {
				o, dob = vGenBitmap("b")
			}
			// (content check of binary results is C01's; here: buffer untouched and z stays a correct set pointwise)
			op := vOpAnd
			switch vsym.Param("bop") {
			case 1:
				op = vOpOr
			case 2:
				op = vOpXor
			case 3:
				op = vOpAndNot
			}
			switch op {
			case vOpAnd:
				z.And(o)
			case vOpOr:
				z.Or(o)
			case vOpXor:
				z.Xor(o)
			case vOpAndNot:
				z.AndNot(o)
			}
			// requires concrete keys on both sides (akeys = bkeys = 4): the model of the result is built slot-wise
			model = vBDescBinop(op, model, dob)
		case 9:
			// the zero-copy bitmap as ARGUMENT of an in-place union / symmetric difference of an ordinary bitmap, which is
			// then mutated: chunks taken over from the argument still live in the caller's buffer
			if o == nil {
				o, dob = vGenBitmap("b")
			}
			op := vOpOr
			if vsym.Param("bop") == 2 {
				op = vOpXor
				o.Xor(z)
			} else {
				o.Or(z)
			}
			om := vBDescBinop(op, dob, model)
			vBitmapExact(o, om.spec(), false)
			x := vArg32()
			o.Remove(x)
			om = om.withPoint(vOpAndNot, x)
			vBitmapExact(o, om.spec(), false)
			y := vArg32()
			o.Add(y)
			om = om.withPoint(vOpOr, y)
			vBitmapExact(o, om.spec(), false)
		case 8:
			// derived bitmap mutated in turn; the zero-copy bitmap as argument
			c := z.Clone()
			x := vArg32()
			c.Add(x)
			c.RunOptimize()
			vBitmapExact(c, model.withPoint(vOpOr, x).spec(), false)
		}
		if vsym.Param("dbg") == 1 {
			vDumpBitmap(z)
		}
		vBitmapExact(z, model.spec(), false)
	}
	vsym.Reach("end")
}

func vDumpBitmap(z *Bitmap) {
	for i, c := range z.highlowcontainer.containers {
		vsym.Observe(uint64(z.highlowcontainer.keys[i]))
		vsym.Observe(uint64(vKindOf(c)))
		switch r := c.(type) {
		case *arrayContainer:
			for _, e := range r.content {
				vsym.Observe(uint64(e))
			}
		case *runContainer16:
			for _, iv := range r.iv {
				vsym.Observe(uint64(iv.start))
				vsym.Observe(uint64(iv.length))
			}
		}
		vsym.Observe(999999)
	}
}

// description of (a OP b) for descriptions whose keys are concrete
func vBDescBinop(op int, a, b *vBDesc) *vBDesc {
	nd := &vBDesc{}
	for j, k := range a.keys {
		var partner *vDesc
		for i, kb := range b.keys {
			if kb == k && !b.isDead(i) {
				partner = b.cs[i]
			}
		}
		var c *vDesc
		switch {
		case partner != nil:
			c = &vDesc{kind: vKOp, op: op, l: a.cs[j], r: partner}
		case op == vOpAnd:
			c = &vDesc{kind: vKArray, inactive: true}
		default:
			c = a.cs[j]
		}
		nd.keys = append(nd.keys, k)
		nd.cs = append(nd.cs, c)
		nd.dead = append(nd.dead, a.isDead(j))
	}
	if op == vOpOr || op == vOpXor {
		for i, kb := range b.keys {
			found := false
			for j, k := range a.keys {
				if k == kb && !a.isDead(j) {
					found = true
				}
			}
			nd.keys = append(nd.keys, kb)
			nd.cs = append(nd.cs, b.cs[i])
			nd.dead = append(nd.dead, vsym.Or(found, b.isDead(i)))
		}
	}
	return nd
}
