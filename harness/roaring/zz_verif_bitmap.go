//go:build verif

package roaring

// Bitmap-level generators, descriptions and checkers.

import "github.com/RoaringBitmap/roaring/v2/internal/vsym"

var vDigits = []string{"0", "1", "2", "3", "4", "5", "6", "7"}

type vBDesc struct {
	keys []uint16
	cs   []*vDesc
}

func (d *vBDesc) has(x uint32) bool {
	r := false
	hi, lo := uint16(x>>16), uint16(x)
	for j, k := range d.keys {
		r = vsym.Or(r, vsym.And(k == hi, d.cs[j].has(lo)))
	}
	return r
}

func (d *vBDesc) card() int {
	n := 0
	for _, c := range d.cs {
		n += c.card()
	}
	return n
}

// vGenBitmap builds a Bitmap directly from symbolic chunks.
//
//	params (prefixed): k = number of chunks; c0,c1,.. = kind*100+shape per chunk;
//	keys: 0 free strictly increasing, 1 first key is 0, 2 last key is 0xFFFF, 3 adjacent keys, 4 = concrete keys 0,1,2..
//	cow: 0 all flags false; 1 symbolic per-chunk flags and symbolic copyOnWrite switch
func vGenBitmap(p string) (*Bitmap, *vBDesc) {
	k := vsym.Param(p + "k")
	pat := vsym.Param(p + "keys")
	cow := vsym.Param(p + "cow")
	rb := &Bitmap{}
	d := &vBDesc{}
	ra := &rb.highlowcontainer
	ra.keys = make([]uint16, k)
	ra.containers = make([]container, k)
	ra.needCopyOnWrite = make([]bool, k)
	for i := 0; i < k; i++ {
		var key uint16
		switch {
		case pat == 4:
			key = uint16(i)
		case pat == 1 && i == 0:
			key = 0
		case pat == 2 && i == k-1:
			key = 0xFFFF
		case pat == 3 && i > 0:
			key = ra.keys[i-1] + 1
			vsym.Assume(ra.keys[i-1] < 0xFFFF)
		default:
			key = vsym.U16()
		}
		if i > 0 {
			vsym.Assume(ra.keys[i-1] < key)
		}
		ra.keys[i] = key
		code := vsym.Param(p + "c" + vDigits[i])
		c, cd := vGenContainer(code/100, code%100)
		ra.containers[i] = c
		if cow == 1 {
			ra.needCopyOnWrite[i] = vsym.Bool()
		}
		d.keys = append(d.keys, key)
		d.cs = append(d.cs, cd)
	}
	if cow == 1 {
		ra.copyOnWrite = vsym.Bool()
	}
	return rb, d
}

// harness-side decoders of a Bitmap's representation
func vContainerHas(c container, lo uint16) bool {
	switch r := c.(type) {
	case *arrayContainer:
		return vArrHas(r.content, lo)
	case *runContainer16:
		return vRunHas(r.iv, lo)
	case *bitmapContainer:
		return (r.bitmap[lo>>6]>>(lo&63))&1 == 1
	}
	panic("vContainerHas")
}

func vContainerCard(c container) int {
	switch r := c.(type) {
	case *arrayContainer:
		return len(r.content)
	case *runContainer16:
		n := 0
		for _, iv := range r.iv {
			n += int(iv.length) + 1
		}
		return n
	case *bitmapContainer:
		return r.cardinality
	}
	panic("vContainerCard")
}

func vBitmapHas(rb *Bitmap, x uint32) bool {
	ra := &rb.highlowcontainer
	hi, lo := uint16(x>>16), uint16(x)
	r := false
	for j := range ra.keys {
		r = vsym.Or(r, vsym.And(ra.keys[j] == hi, vContainerHas(ra.containers[j], lo)))
	}
	return r
}

func vBitmapCard(rb *Bitmap) int {
	n := 0
	for _, c := range rb.highlowcontainer.containers {
		n += vContainerCard(c)
	}
	return n
}

// vBitmapWf asserts the bitmap-level representation invariant (keys strictly increasing, parallel slices,
// no empty chunk, each chunk well-formed).  strict: chunk kinds must match their cardinality (C09).
func vBitmapWf(rb *Bitmap, strict bool) {
	ra := &rb.highlowcontainer
	vsym.Assert(len(ra.keys) == len(ra.containers), "wf-parallel-slices")
	vsym.Assert(len(ra.keys) == len(ra.needCopyOnWrite), "wf-parallel-slices")
	if len(ra.keys) != len(ra.containers) {
		return
	}
	ok := true
	for i := 1; i < len(ra.keys); i++ {
		ok = vsym.And(ok, ra.keys[i-1] < ra.keys[i])
	}
	vsym.Assert(ok, "wf-keys-sorted")
	for _, c := range ra.containers {
		if c == nil {
			vsym.Assert(false, "wf-nil-chunk")
			return
		}
		vCheckWf(c, false, strict)
	}
}

// vBitmapExact: rb denotes exactly {x : has(x)} with cardinality card.
func vBitmapExact(rb *Bitmap, has func(x uint32) bool, card int, strict bool) {
	vBitmapWf(rb, strict)
	x := vsym.U32()
	vsym.Assert(vBitmapHas(rb, x) == has(x), "exact-set")
	vsym.Assert(vBitmapCard(rb) == card, "cardinality")
}

// snapshot of a whole bitmap (representation level) to assert arguments are not modified
type vBSnap struct {
	keys  []uint16
	snaps []*vSnap
}

func vBSnapshot(rb *Bitmap) *vBSnap {
	s := &vBSnap{keys: append([]uint16(nil), rb.highlowcontainer.keys...)}
	for _, c := range rb.highlowcontainer.containers {
		s.snaps = append(s.snaps, vSnapshot(c))
	}
	return s
}

func vBUnchanged(rb *Bitmap, s *vBSnap, label string) {
	ra := &rb.highlowcontainer
	if len(ra.keys) != len(s.keys) || len(ra.containers) != len(s.keys) {
		vsym.Assert(false, label)
		return
	}
	ok := true
	for i := range s.keys {
		ok = vsym.And(ok, ra.keys[i] == s.keys[i])
	}
	vsym.Assert(ok, label)
	for i := range s.snaps {
		vUnchanged(ra.containers[i], s.snaps[i], label)
	}
}
