//go:build verif

package roaring

// Bitmap-level generators, descriptions and checkers.

import "github.com/RoaringBitmap/roaring/v2/internal/vsym"

var vDigits = []string{"0", "1", "2", "3", "4", "5", "6", "7"}

type vBDesc struct {
	keys []uint16
	cs   []*vDesc
	dead []bool // dead[j]: slot j is not a chunk of its own (its key is carried by another slot); nil = all live
}

func (d *vBDesc) isDead(j int) bool {
	if d.dead == nil {
		return false
	}
	return d.dead[j]
}

func (d *vBDesc) has(x uint32) bool {
	r := false
	hi, lo := uint16(x>>16), uint16(x)
	for j, k := range d.keys {
		r = vsym.Or(r, vsym.And(vsym.And(k == hi, !d.isDead(j)), d.cs[j].has(lo)))
	}
	return r
}

func (d *vBDesc) card() int {
	n := 0
	for j, c := range d.cs {
		n += vsym.IteInt(d.isDead(j), 0, c.card())
	}
	return n
}

// vGenBitmap builds a Bitmap directly from symbolic chunks.
//
//	params (prefixed): k = number of chunks; c0,c1,.. = kind*100+shape per chunk;
//	keys: 0 free strictly increasing, 1 first key is 0, 2 last key is 0xFFFF, 3 adjacent keys, 4 = concrete keys 0,1,2..
//	cow: 0 all flags false; 1 symbolic per-chunk flags and symbolic copyOnWrite switch
func vGenBitmap(p string) (*Bitmap, *vBDesc) {
	k := vsym.Param(p + "k")
	pat := vsym.Param(p + "keys")
	cow := vsym.Param(p + "cow")
	rb := &Bitmap{}
	d := &vBDesc{}
	ra := &rb.highlowcontainer
	ra.keys = make([]uint16, k)
	ra.containers = make([]container, k)
	ra.needCopyOnWrite = make([]bool, k)
	for i := 0; i < k; i++ {
		var key uint16
		switch {
		case pat == 4:
			key = uint16(i)
		case pat == 5:
			key = uint16(i + 1)
		case pat == 6:
			key = uint16(2 * i)
		case pat == 15:
			key = []uint16{4, 6, 40, 41}[i]
		case pat == 16:
			key = []uint16{2, 6, 7, 50}[i]
		case pat == 13:
			key = uint16(4 + 16*i)
		case pat == 14:
			key = uint16(2 + 3*i)
		case pat == 7:
			key = uint16(65531 + 2*i)
		case pat == 8:
			key = uint16(65532 + 3*i)
		case pat == 9: // anchored symbolic keys at the top of the key space: 0xFFF0+4i+{0..3}
			key = uint16(0xFFF0+4*i) + (vsym.U16() & 3)
		case pat == 10: // anchored symbolic keys low: 8i+{0..7}
			key = uint16(8*i) + (vsym.U16() & 7)
		case pat == 1 && i == 0:
			key = 0
		case pat == 2 && i == k-1:
			key = 0xFFFF
		case pat == 3 && i > 0:
			key = ra.keys[i-1] + 1
			vsym.Assume(ra.keys[i-1] < 0xFFFF)
		default:
			key = vsym.U16()
		}
		if i > 0 {
			vsym.Assume(ra.keys[i-1] < key)
		}
		ra.keys[i] = key
		code := vsym.Param(p + "c" + vDigits[i])
		c, cd := vGenContainer(code/100, code%100)
		ra.containers[i] = c
		if cow == 1 {
			ra.needCopyOnWrite[i] = vsym.Bool()
		}
		d.keys = append(d.keys, key)
		d.cs = append(d.cs, cd)
	}
	if cow == 1 {
		ra.copyOnWrite = vsym.Bool()
	}
	return rb, d
}

// harness-side decoders of a Bitmap's representation
func vContainerHas(c container, lo uint16) bool {
	switch r := c.(type) {
	case *arrayContainer:
		return vArrHas(r.content, lo)
	case *runContainer16:
		return vRunHas(r.iv, lo)
	case *bitmapContainer:
		return (r.bitmap[lo>>6]>>(lo&63))&1 == 1
	}
	panic("vContainerHas")
}

func vContainerCard(c container) int {
	switch r := c.(type) {
	case *arrayContainer:
		return len(r.content)
	case *runContainer16:
		n := 0
		for _, iv := range r.iv {
			n += int(iv.length) + 1
		}
		return n
	case *bitmapContainer:
		return r.cardinality
	}
	panic("vContainerCard")
}

func vBitmapHas(rb *Bitmap, x uint32) bool {
	ra := &rb.highlowcontainer
	hi, lo := uint16(x>>16), uint16(x)
	r := false
	for j := range ra.keys {
		r = vsym.Or(r, vsym.And(ra.keys[j] == hi, vContainerHas(ra.containers[j], lo)))
	}
	return r
}

func vBitmapCard(rb *Bitmap) int {
	n := 0
	for _, c := range rb.highlowcontainer.containers {
		n += vContainerCard(c)
	}
	return n
}

// vBitmapWf asserts the bitmap-level representation invariant (keys strictly increasing, parallel slices,
// no empty chunk, each chunk well-formed).  strict: chunk kinds must match their cardinality (C09).
func vBitmapWf(rb *Bitmap, strict bool) {
	ra := &rb.highlowcontainer
	vsym.Assert(len(ra.keys) == len(ra.containers), "wf-parallel-slices")
	vsym.Assert(len(ra.keys) == len(ra.needCopyOnWrite), "wf-parallel-slices")
	if len(ra.keys) != len(ra.containers) {
		return
	}
	ok := true
	for i := 1; i < len(ra.keys); i++ {
		ok = vsym.And(ok, ra.keys[i-1] < ra.keys[i])
	}
	vsym.Assert(ok, "wf-keys-sorted")
	for _, c := range ra.containers {
		if c == nil {
			vsym.Assert(false, "wf-nil-chunk")
			return
		}
		vCheckWf(c, false, strict)
	}
}

// vBSpec: the specification of a whole bitmap: pointwise membership, total cardinality and,
// for the word/count oracle on large chunks, the specification restricted to one chunk key.
type vBSpec struct {
	has   func(x uint32) bool
	card  int
	chunk func(key uint16) vSpec
}

func (d *vBDesc) spec() vBSpec {
	return vBSpec{has: d.has, card: d.card(), chunk: d.chunkSpec}
}

// the described set restricted to one chunk key (keys of d may repeat; inactive chunks denote nothing)
func (d *vBDesc) chunkSpec(key uint16) vSpec {
	return vSpec{
		has: func(lo uint16) bool { return d.has(uint32(key)<<16 | uint32(lo)) },
		words: func() []uint64 {
			w := make([]uint64, 1024)
			for j, k := range d.keys {
				if vsym.Concrete(uint64(vsym.B2I(vsym.And(k == key, !d.isDead(j))))) {
					if k == key && !d.isDead(j) {
						wj := d.cs[j].words()
						for i := range w {
							w[i] |= wj[i]
						}
					}
					continue
				}
				wj := d.cs[j].words()
				for i := range w {
					w[i] |= vsym.IteU64(vsym.And(k == key, !d.isDead(j)), wj[i], 0)
				}
			}
			return w
		},
		card: func() int {
			n := 0
			for j, k := range d.keys {
				n += vsym.IteInt(vsym.And(k == key, !d.isDead(j)), d.cs[j].card(), 0)
			}
			return n
		},
	}
}

// vBitmapExact: rb denotes exactly the specified set and is well-formed.
// Small chunks are compared pointwise with one free probe; bitmap chunks and large arrays chunk-wise by words/count.
func vBitmapExact(rb *Bitmap, sp vBSpec, strict bool) {
	vBitmapWf(rb, strict)
	ra := &rb.highlowcontainer
	big := false
	for _, c := range ra.containers {
		switch r := c.(type) {
		case *bitmapContainer:
			big = true
		case *arrayContainer:
			if len(r.content) > 64 {
				big = true
			}
		}
	}
	if !big || sp.chunk == nil {
		x := vsym.U32()
		vsym.Assert(vBitmapHas(rb, x) == sp.has(x), "exact-set")
	} else {
		// chunk-wise: every chunk equals the specification restricted to its key; together with the cardinality
		// equality below this is set equality
		for i, c := range ra.containers {
			vCheckExact(c, sp.chunk(ra.keys[i]), false, false)
		}
	}
	vsym.Assert(vBitmapCard(rb) == sp.card, "cardinality")
}

// snapshot of a whole bitmap (representation level) to assert arguments are not modified
type vBSnap struct {
	keys  []uint16
	snaps []*vSnap
}

func vBSnapshot(rb *Bitmap) *vBSnap {
	s := &vBSnap{keys: append([]uint16(nil), rb.highlowcontainer.keys...)}
	for _, c := range rb.highlowcontainer.containers {
		s.snaps = append(s.snaps, vSnapshot(c))
	}
	return s
}

func vBUnchanged(rb *Bitmap, s *vBSnap, label string) {
	ra := &rb.highlowcontainer
	if len(ra.keys) != len(s.keys) || len(ra.containers) != len(s.keys) {
		vsym.Assert(false, label)
		return
	}
	ok := true
	for i := range s.keys {
		ok = vsym.And(ok, ra.keys[i] == s.keys[i])
	}
	vsym.Assert(ok, label)
	for i := range s.snaps {
		vUnchanged(ra.containers[i], s.snaps[i], label)
	}
}
