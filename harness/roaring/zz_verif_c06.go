//go:build verif

package roaring

// C06: an independent reading of the RoaringFormatSpec (written from the published format description; shares no code
// with the library's serializer): a decoder used on the library's bytes, and an encoder (with the legal encoder choices)
// whose streams the library must read as exactly the encoded set.

import (
	"bytes"

	"github.com/RoaringBitmap/roaring/v2/internal/vsym"
)

func init() {
	vsym.Register("VerifC06Write", VerifC06Write)
	vsym.Register("VerifC06Read", VerifC06Read)
}

func vLE16(b []byte, p int) uint16 { return uint16(b[p]) | uint16(b[p+1])<<8 }
func vLE32(b []byte, p int) uint32 {
	return uint32(b[p]) | uint32(b[p+1])<<8 | uint32(b[p+2])<<16 | uint32(b[p+3])<<24
}

// VerifC06Write: bytes produced by the library, parsed field by field under the spec.
func VerifC06Write() {
	a, da := vGenBitmap("a")
	data, err := a.ToBytes()
	vsym.Assert(err == nil, "write-ok")
	n := len(da.keys)
	hasRun := false
	for _, c := range da.cs {
		if c.kind == vKRun {
			hasRun = true
		}
	}
	pos := 0
	var runBits []byte
	if hasRun {
		vsym.Assert(len(data) >= 4, "spec-length")
		vsym.Assert(vLE16(data, 0) == 12347, "spec-cookie")
		vsym.Assert(int(vLE16(data, 2)) == n-1, "spec-count")
		pos = 4
		runBits = data[pos : pos+(n+7)/8]
		pos += (n + 7) / 8
		ok := true
		for i := 0; i < n; i++ {
			bit := (runBits[i/8]>>(uint(i)%8))&1 == 1
			ok = vsym.And(ok, bit == (da.cs[i].kind == vKRun))
		}
		for i := n; i < 8*len(runBits); i++ {
			ok = vsym.And(ok, (runBits[i/8]>>(uint(i)%8))&1 == 0)
		}
		vsym.Assert(ok, "spec-run-flags")
	} else {
		vsym.Assert(len(data) >= 8, "spec-length")
		vsym.Assert(vLE32(data, 0) == 12346, "spec-cookie")
		vsym.Assert(int(vLE32(data, 4)) == n, "spec-count")
		pos = 8
	}
	// descriptive header
	ok := true
	for i := 0; i < n; i++ {
		ok = vsym.And(ok, vLE16(data, pos+4*i) == da.keys[i])
		ok = vsym.And(ok, int(vLE16(data, pos+4*i+2)) == da.cs[i].card()-1)
	}
	vsym.Assert(ok, "spec-descriptors")
	pos += 4 * n
	offPos := -1
	if !hasRun || n >= 4 {
		offPos = pos
		pos += 4 * n
	}
	// payloads
	okOff, okPay := true, true
	x := vArg32()
	member := false
	for i := 0; i < n; i++ {
		if offPos >= 0 {
			okOff = vsym.And(okOff, int(vLE32(data, offPos+4*i)) == pos)
		}
		d := da.cs[i]
		here := da.keys[i] == uint16(x>>16)
		lo := uint16(x)
		in := false
		switch {
		case d.kind == vKRun:
			nr := int(vLE16(data, pos))
			okPay = vsym.And(okPay, nr == len(d.ivs))
			pos += 2
			for r := 0; r < len(d.ivs); r++ {
				s, l := vLE16(data, pos), vLE16(data, pos+2)
				okPay = vsym.And(okPay, uint32(s)+uint32(l) <= 65535)
				if r > 0 {
					ps, pl := vLE16(data, pos-4), vLE16(data, pos-2)
					okPay = vsym.And(okPay, uint32(ps)+uint32(pl) < uint32(s))
				}
				in = vsym.Or(in, vsym.And(s <= lo, uint32(lo) <= uint32(s)+uint32(l)))
				pos += 4
			}
		case d.kind == vKBitmap:
			// cardinality > 4096: 8 KiB bit vector
			w := int(lo >> 6)
			var word uint64
			for b := 0; b < 8; b++ {
				word |= uint64(data[pos+8*w+b]) << (8 * uint(b))
			}
			in = (word>>(lo&63))&1 == 1
			pos += 8192
		default:
			cnt := len(d.elems)
			for e := 0; e < cnt; e++ {
				v := vLE16(data, pos)
				if e > 0 {
					okPay = vsym.And(okPay, vLE16(data, pos-2) < v)
				}
				in = vsym.Or(in, v == lo)
				pos += 2
			}
		}
		member = vsym.Or(member, vsym.And(here, in))
	}
	vsym.Assert(okOff, "spec-offsets")
	vsym.Assert(okPay, "spec-payload-form")
	vsym.Assert(pos == len(data), "spec-total-length")
	vsym.Assert(member == da.has(x), "spec-decoded-set")
	vsym.Reach("end")
}

// spec encoder. enc: 0 = cookie 12346 (legal only without run chunks); 1 = cookie 12347.
// rstyle: how a run description is written: 0 as it is, 1 first run split into two adjacent runs.
// astyle: how an array description is written: 0 array, 1 one run per element (needs cookie 12347).
func vSpecEncode(d *vBDesc, enc, rstyle, astyle int) []byte {
	n := len(d.keys)
	var out []byte
	p16 := func(v uint16) { out = append(out, byte(v), byte(v>>8)) }
	p32 := func(v uint32) { out = append(out, byte(v), byte(v>>8), byte(v>>16), byte(v>>24)) }
	isRun := make([]bool, n)
	for i, c := range d.cs {
		isRun[i] = c.kind == vKRun || (c.kind == vKArray && astyle == 1)
	}
	if enc == 0 {
		p32(12346)
		p32(uint32(n))
	} else {
		p16(12347)
		p16(uint16(n - 1))
		bits := make([]byte, (n+7)/8)
		for i := range isRun {
			if isRun[i] {
				bits[i/8] |= 1 << (uint(i) % 8)
			}
		}
		out = append(out, bits...)
	}
	for i := 0; i < n; i++ {
		p16(d.keys[i])
		p16(uint16(d.cs[i].card() - 1))
	}
	// payload sizes
	type pay struct{ b []byte }
	pays := make([][]byte, n)
	for i, c := range d.cs {
		var pb []byte
		q16 := func(v uint16) { pb = append(pb, byte(v), byte(v>>8)) }
		switch {
		case c.kind == vKRun:
			ivs := c.ivs
			if rstyle == 1 && len(ivs) > 0 {
				// split the first run [s, s+l] (l >= 1) into [s,s] and [s+1, s+l]: adjacent runs are legal in the format
				q16(uint16(len(ivs) + 1))
				q16(ivs[0].s)
				q16(0)
				q16(ivs[0].s + 1)
				q16(ivs[0].l - 1)
				for _, iv := range ivs[1:] {
					q16(iv.s)
					q16(iv.l)
				}
			} else {
				q16(uint16(len(ivs)))
				for _, iv := range ivs {
					q16(iv.s)
					q16(iv.l)
				}
			}
		case c.kind == vKArray && astyle == 1:
			q16(uint16(len(c.elems)))
			for _, e := range c.elems {
				q16(e)
				q16(0)
			}
		case c.kind == vKArray:
			for _, e := range c.elems {
				q16(e)
			}
		default:
			w := c.words()
			for _, x := range w {
				for b := 0; b < 8; b++ {
					pb = append(pb, byte(x>>(8*uint(b))))
				}
			}
		}
		pays[i] = pb
	}
	if enc == 0 || n >= 4 {
		off := len(out) + 4*n
		for i := 0; i < n; i++ {
			p32(uint32(off))
			off += len(pays[i])
		}
	}
	for i := 0; i < n; i++ {
		out = append(out, pays[i]...)
	}
	return out
}

// VerifC06Read: spec-conformant streams (all encoder choices) are read as exactly the set they encode.
//
//	params: enc, rstyle, astyle, rd (0 FromBuffer, 1 FromUnsafeBytes, 2 ReadFrom), a*
func VerifC06Read() {
	_, da := vGenBitmap("a")
	enc, rstyle, astyle := vsym.Param("enc"), vsym.Param("rstyle"), vsym.Param("astyle")
	if rstyle == 1 {
		for _, c := range da.cs {
			if c.kind == vKRun && len(c.ivs) > 0 {
				vsym.Assume(c.ivs[0].l >= 1)
			}
		}
	}
	data := vSpecEncode(da, enc, rstyle, astyle)
	b := NewBitmap()
	var err error
	var nr int64
	switch vsym.Param("rd") {
	case 0:
		nr, err = b.FromBuffer(data)
	case 1:
		nr, err = b.FromUnsafeBytes(data)
	case 2:
		nr, err = b.ReadFrom(bytes.NewReader(data))
	}
	vsym.Assert(err == nil, "read-ok")
	vsym.Assert(int(nr) == len(data), "read-count")
	x := vArg32()
	vsym.Assert(b.Contains(x) == da.has(x), "read-contains")
	vsym.Assert(b.GetCardinality() == uint64(da.card()), "read-cardinality")
	// observers agree: rank of the probe
	vsym.Assert(b.Rank(x) == uint64(da.countLE(x)), "read-rank")
	vsym.Reach("end")
}
