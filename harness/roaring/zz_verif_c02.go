//go:build verif

package roaring

import "github.com/RoaringBitmap/roaring/v2/internal/vsym"

func init() {
	vsym.Register("VerifC02Step", VerifC02Step)
}

// range arguments: s = sb + (free & sm); e = (len<0) ? eb + (free & em) : s + (free & len)
func vRangeArgs() (uint64, uint64) {
	s := uint64(vsym.Param("sb")) + (vsym.U64() & uint64(vsym.Param("sm")))
	var e uint64
	if l := vsym.Param("len"); l >= 0 {
		e = s + (vsym.U64() & uint64(l))
	} else {
		e = uint64(vsym.Param("eb")) + (vsym.U64() & uint64(vsym.Param("em")))
	}
	vsym.Assume(s <= 1<<32)
	vsym.Assume(e <= 1<<32)
	return s, e
}

// ---------- description-level effect of the mutators (the plain-set model)

func vElemDesc(lo uint16) *vDesc { return &vDesc{kind: vKArray, elems: []uint16{lo}} }

func (d *vBDesc) hasKey(k uint16) bool {
	r := false
	for j, kk := range d.keys {
		r = vsym.Or(r, vsym.And(kk == k, !d.isDead(j)))
	}
	return r
}

// d with x added (op = vOpOr) or removed (op = vOpAndNot)
func (d *vBDesc) withPoint(op int, x uint32) *vBDesc {
	hi, lo := uint16(x>>16), uint16(x)
	nd := &vBDesc{}
	for j, k := range d.keys {
		e := vElemDesc(lo)
		e.inactive = k != hi
		nd.keys = append(nd.keys, k)
		nd.cs = append(nd.cs, &vDesc{kind: vKOp, op: op, l: d.cs[j], r: e})
		nd.dead = append(nd.dead, d.isDead(j))
	}
	if op == vOpOr {
		nd.keys = append(nd.keys, hi)
		nd.cs = append(nd.cs, vElemDesc(lo))
		nd.dead = append(nd.dead, d.hasKey(hi))
	}
	return nd
}

// the part of [s,e) that falls into chunk k, as a description (inactive if empty)
func vRangeLayer(k uint16, s, e uint64) *vDesc {
	base := uint64(k) << 16
	lo := vsym.IteU64(s > base, s, base)
	top := base + 65536
	hi := vsym.IteU64(e < top, e, top) // exclusive
	d := &vDesc{kind: vKRun, ivs: []vIv{{uint16(lo - base), uint16(hi - 1 - lo)}}}
	d.inactive = !(lo < hi)
	return d
}

// d with [s,e) added (vOpOr), removed (vOpAndNot) or flipped (vOpXor); kmin..kmax are the concrete candidate keys
func (d *vBDesc) withRange(op int, s, e uint64, kmin, kmax int) *vBDesc {
	nd := &vBDesc{}
	for j, k := range d.keys {
		nd.keys = append(nd.keys, k)
		nd.cs = append(nd.cs, &vDesc{kind: vKOp, op: op, l: d.cs[j], r: vRangeLayer(k, s, e)})
		nd.dead = append(nd.dead, d.isDead(j))
	}
	if op != vOpAndNot {
		for k := kmin; k <= kmax; k++ {
			nd.keys = append(nd.keys, uint16(k))
			nd.cs = append(nd.cs, vRangeLayer(uint16(k), s, e))
			nd.dead = append(nd.dead, d.hasKey(uint16(k)))
		}
	}
	return nd
}

// VerifC02Step: one mutating call from an arbitrary well-formed state (inductive step), compared with a plain-set model.
//
//	params: m (mutator), a* (pre-state), xb,xm (point argument window), sb,sm,eb,em,len (range window), n (AddMany length), inv
func VerifC02Step() {
	m := vsym.Param("m")
	inv := vsym.Param("inv") == 1
	a, da := vGenBitmap("a")
	post := da
	// chunks that are shared (flag set) before the call: the same container object may not lose its flag through the call,
	// otherwise a later mutation writes into a chunk another bitmap still uses
	preCs := append([]container(nil), a.highlowcontainer.containers...)
	preFlags := append([]bool(nil), a.highlowcontainer.needCopyOnWrite...)
	switch m {
	case 0, 1, 2:
		x := vArg32()
		had := da.has(x)
		switch m {
		case 0:
			a.Add(x)
		case 1:
			r := a.CheckedAdd(x)
			vsym.ObserveBool(r)
			vsym.Assert(r == !had, "checked-result")
		case 2:
			a.AddInt(int(x))
		}
		post = da.withPoint(vOpOr, x)
	case 3, 4:
		x := vArg32()
		had := da.has(x)
		if m == 3 {
			a.Remove(x)
		} else {
			r := a.CheckedRemove(x)
			vsym.ObserveBool(r)
			vsym.Assert(r == had, "checked-result")
		}
		post = da.withPoint(vOpAndNot, x)
	case 5:
		n := vsym.Param("n")
		dat := make([]uint32, n)
		for i := range dat {
			dat[i] = vArg32()
		}
		keep := append([]uint32(nil), dat...)
		a.AddMany(dat)
		same := true
		for i := range keep {
			same = vsym.And(same, dat[i] == keep[i])
			post = post.withPoint(vOpOr, keep[i])
		}
		vsym.Assert(same, "argument-slice-unchanged")
	case 6, 7, 8:
		s, e := vRangeArgs()
		kmin := vsym.Param("sb") >> 16
		kmax := kmin
		if l := vsym.Param("len"); l >= 0 {
			kmax = (vsym.Param("sb") + vsym.Param("sm") + l) >> 16
		} else {
			kmax = (vsym.Param("eb") + vsym.Param("em")) >> 16
		}
		if kmax > 65535 {
			kmax = 65535
		}
		switch m {
		case 6:
			a.AddRange(s, e)
			post = da.withRange(vOpOr, s, e, kmin, kmax)
		case 7:
			a.RemoveRange(s, e)
			post = da.withRange(vOpAndNot, s, e, kmin, kmax)
		case 8:
			a.Flip(s, e)
			post = da.withRange(vOpXor, s, e, kmin, kmax)
		}
	case 9:
		a.Clear()
		post = &vBDesc{}
	case 10:
		a.RunOptimize()
	case 11:
		a = a.Clone()
	case 12:
		a.CloneCopyOnWriteContainers()
	case 13:
		a.SetCopyOnWrite(vsym.Bool())
	}
	if m != 11 && m != 12 { // Clone returns a new bitmap; CloneCopyOnWriteContainers is the documented way to drop the flags
		kept := true
		ra := &a.highlowcontainer
		for i := range ra.containers {
			if i >= len(ra.needCopyOnWrite) {
				break
			}
			for j := range preCs {
				if ra.containers[i] == preCs[j] {
					kept = vsym.And(kept, vsym.Implies(preFlags[j], ra.needCopyOnWrite[i]))
				}
			}
		}
		vsym.Assert(kept, "cow-flag-dropped")
	}
	vsym.Observe(uint64(len(a.highlowcontainer.keys)))
	if inv {
		vBitmapWf(a, true)
		vsym.Assert(a.Validate() == nil, "validate")
	} else {
		vBitmapExact(a, post.spec(), false)
	}
	vsym.Reach("end")
}
