//go:build verif

package roaring

import "github.com/RoaringBitmap/roaring/v2/internal/vsym"

func init() {
	vsym.Register("VerifC07Op", VerifC07Op)
}

const (
	vPClone = iota
	vPAnd
	vPOr
	vPXor
	vPAndNot
	vPIAnd
	vPIOr
	vPIXor
	vPIAndNot
	vPFlip
	vPAddOffset
	vPFastOr
	vPFastAnd
	vPHeapOr
	vPHeapXor
	vPAndAny
	vPParOr
	vPParAnd
	vPParHeapOr
)

// one symbolic mutation of a bitmap
func vMutate(z *Bitmap, mk int) {
	switch mk {
	case 0:
		z.Add(vArg32())
	case 1:
		z.Remove(vArg32())
	case 2:
		s, e := vRangeArgs()
		z.AddRange(s, e)
	case 3:
		s, e := vRangeArgs()
		z.RemoveRange(s, e)
	case 4:
		s, e := vRangeArgs()
		z.Flip(s, e)
	case 5:
		z.RunOptimize()
		z.Add(vArg32())
	case 6:
		// a batch whose first value may already be present (AddMany keeps writing into the chunk it looked up first)
		x := vArg32()
		z.AddMany([]uint32{x, x + 1, x + 2})
	}
}

// VerifC07Op: a producing operation, then ONE mutation of one of the live bitmaps; every other bitmap keeps its
// representation-level content (snapshots), and read-only operations leave their arguments and the argument slice alone.
//
//	params: op, pre (1: input a is a copy-on-write clone of a0, which must stay untouched too), mut (0 result, 1 a, 2 b, 3 a0, 4 c), emp (1: empty member in the list, 2: third member c, 3: single member), mk, w (workers), a*, b*
func VerifC07Op() {
	op, pre, mut, mk := vsym.Param("op"), vsym.Param("pre"), vsym.Param("mut"), vsym.Param("mk")
	a, _ := vGenBitmap("a")
	var a0 *Bitmap
	if pre == 1 {
		a0 = a
		a0.SetCopyOnWrite(true)
		a = a0.Clone() // shares every chunk with a0, flagged on both sides
	}
	b, _ := vGenBitmap("b")
	snapA, snapB := vBSnapshot(a), vBSnapshot(b)
	var snapA0 *vBSnap
	if a0 != nil {
		snapA0 = vBSnapshot(a0)
	}
	w := vsym.Param("w")
	args := []*Bitmap{a, b, a}
	var c *Bitmap
	var snapC *vBSnap
	switch vsym.Param("emp") {
	case 1:
		args = []*Bitmap{a, NewBitmap(), b}
	case 2: // three distinct members
		c, _ = vGenBitmap("c")
		snapC = vBSnapshot(c)
		args = []*Bitmap{a, b, c}
	case 3: // a single member
		args = []*Bitmap{a}
	case 4: // one member and an empty one
		args = []*Bitmap{a, NewBitmap()}
	case 5:
		args = []*Bitmap{NewBitmap(), a, NewBitmap()}
	}
	keep := append([]*Bitmap(nil), args...)
	var r *Bitmap
	inPlace := false
	switch op {
	case vPClone:
		r = a.Clone()
	case vPAnd:
		r = And(a, b)
	case vPOr:
		r = Or(a, b)
	case vPXor:
		r = Xor(a, b)
	case vPAndNot:
		r = AndNot(a, b)
	case vPIAnd:
		a.And(b)
		r, inPlace = a, true
	case vPIOr:
		a.Or(b)
		r, inPlace = a, true
	case vPIXor:
		a.Xor(b)
		r, inPlace = a, true
	case vPIAndNot:
		a.AndNot(b)
		r, inPlace = a, true
	case vPFlip:
		s, e := vRangeArgs()
		r = Flip(a, s, e)
	case vPAddOffset:
		r = AddOffset64(a, int64(vsym.Param("off"))+int64(vsym.U32()&uint32(vsym.Param("offm"))))
	case vPFastOr:
		r = FastOr(args...)
	case vPFastAnd:
		r = FastAnd(args...)
	case vPHeapOr:
		r = HeapOr(args...)
	case vPHeapXor:
		r = HeapXor(args...)
	case vPAndAny:
		a.AndAny(b, b)
		r, inPlace = a, true
	case vPParOr:
		r = ParOr(w, args...)
	case vPParAnd:
		r = ParAnd(w, args...)
	case vPParHeapOr:
		r = ParHeapOr(w, args...)
	}
	// read-only-ness of the operation itself
	if !inPlace {
		vBUnchanged(a, snapA, "argument-modified")
	}
	vBUnchanged(b, snapB, "argument-modified")
	if a0 != nil {
		vBUnchanged(a0, snapA0, "clone-source-modified")
	}
	if c != nil {
		vBUnchanged(c, snapC, "argument-modified")
	}
	sameSlice := true
	for i := range keep {
		if args[i] != keep[i] {
			sameSlice = false
		}
	}
	vsym.Assert(sameSlice, "argument-slice-modified")
	vBitmapWf(r, false)
	// one later mutation of one participant
	snapR := vBSnapshot(r)
	if inPlace {
		snapA = snapR
	}
	switch mut {
	case 0:
		vMutate(r, mk)
	case 1:
		vMutate(a, mk)
	case 2:
		vMutate(b, mk)
	case 3:
		if a0 != nil {
			vMutate(a0, mk)
		}
	case 4:
		if c != nil {
			vMutate(c, mk)
		}
	}
	if c != nil && mut != 4 {
		vBUnchanged(c, snapC, "input-changed-by-mutating-another-bitmap")
	}
	if mut != 0 && !(inPlace && mut == 1) {
		vBUnchanged(r, snapR, "result-changed-by-mutating-an-input")
	}
	if mut != 1 && !(inPlace && mut == 0) {
		vBUnchanged(a, snapA, "input-changed-by-mutating-another-bitmap")
	}
	if mut != 2 {
		vBUnchanged(b, snapB, "input-changed-by-mutating-another-bitmap")
	}
	if a0 != nil && mut != 3 {
		vBUnchanged(a0, snapA0, "clone-source-changed-by-mutating-another-bitmap")
	}
	vsym.Reach("end")
}
