//go:build verif

package roaring

import (
	"bytes"
	"errors"
	"io"

	"github.com/RoaringBitmap/roaring/v2/internal/vsym"
)

func init() {
	vsym.Register("VerifC05RoundTrip", VerifC05RoundTrip)
	vsym.Register("VerifC05WriterFault", VerifC05WriterFault)
}

// a reader that hands out at most `chunk` bytes per Read call
type vChunkReader struct {
	data  []byte
	pos   int
	chunk int
}

func (r *vChunkReader) Read(p []byte) (int, error) {
	if r.pos >= len(r.data) {
		return 0, io.EOF
	}
	n := len(p)
	if n > r.chunk {
		n = r.chunk
	}
	if n > len(r.data)-r.pos {
		n = len(r.data) - r.pos
	}
	copy(p, r.data[r.pos:r.pos+n])
	r.pos += n
	return n, nil
}

// a writer that fails once `limit` bytes have been accepted (short write at the boundary)
type vFailWriter struct {
	limit int
	n     int
}

var errVWriter = errors.New("injected write failure")

func (w *vFailWriter) Write(p []byte) (int, error) {
	if w.n+len(p) > w.limit {
		k := w.limit - w.n
		w.n = w.limit
		return k, errVWriter
	}
	w.n += len(p)
	return len(p), nil
}

// VerifC05RoundTrip: serialize a symbolic bitmap, read it back through one entry point, compare.
//
//	params: wr (0 ToBytes, 1 WriteTo(bytes.Buffer), 2 MarshalBinary), rd (0 FromBuffer, 1 FromUnsafeBytes, 2 ReadFrom(bytes.Reader),
//	        3 UnmarshalBinary, 4 ReadFrom(chunked reader)), chunk (bytes per Read), reuse (1: receiver already holds another bitmap, 2: receiver grown by two single Adds, 3: receiver used and cleared), tail (trailing bytes), a*
func VerifC05RoundTrip() {
	a, da := vGenBitmap("a")
	snap := vBSnapshot(a)
	var data []byte
	var err error
	var nw int64 = -1
	switch vsym.Param("wr") {
	case 0:
		data, err = a.ToBytes()
	case 1:
		var buf bytes.Buffer
		nw, err = a.WriteTo(&buf)
		data = buf.Bytes()
	case 2:
		data, err = a.MarshalBinary()
	}
	vsym.Assert(err == nil, "write-ok")
	size := a.GetSerializedSizeInBytes()
	vsym.Observe(size)
	vsym.Assert(uint64(len(data)) == size, "size-is-bytes-written")
	if nw >= 0 {
		vsym.Assert(uint64(nw) == size, "writeto-count")
	}
	vBUnchanged(a, snap, "write-read-only")
	// trailing bytes that must not be consumed
	tail := vsym.Param("tail")
	stream := make([]byte, len(data)+tail)
	copy(stream, data)
	for i := 0; i < tail; i++ {
		stream[len(data)+i] = vsym.U8()
	}
	keep := append([]byte(nil), stream...)
	b := NewBitmap()
	switch vsym.Param("reuse") {
	case 1:
		b.AddRange(5, 70000)
		b.Add(1 << 20)
		b.Add(1 << 21)
		b.Add(1 << 22)
	case 2:
		// a receiver grown by single Adds: its three parallel slices have different capacities
		b.Add(7)
		b.Add(1 << 20)
	case 3:
		// ... and cleared again
		b.Add(7)
		b.Clear()
	}
	var nr int64 = -1
	switch vsym.Param("rd") {
	case 0:
		nr, err = b.FromBuffer(stream)
	case 1:
		nr, err = b.FromUnsafeBytes(stream)
	case 2:
		rdr := bytes.NewReader(stream)
		nr, err = b.ReadFrom(rdr)
		vsym.Assert(rdr.Len() == tail, "reader-consumed-exactly")
	case 3:
		err = b.UnmarshalBinary(stream)
	case 4:
		rdr := &vChunkReader{data: stream, chunk: vsym.Param("chunk")}
		nr, err = b.ReadFrom(rdr)
		vsym.Assert(len(stream)-rdr.pos == tail, "reader-consumed-exactly")
	}
	vsym.Assert(err == nil, "read-ok")
	if nr >= 0 {
		vsym.Assert(uint64(nr) == size, "read-count")
	}
	same := true
	for i := range keep {
		same = vsym.And(same, stream[i] == keep[i])
	}
	vsym.Assert(same, "input-bytes-unchanged")
	vBitmapExact(b, da.spec(), false)
	vsym.Assert(b.Equals(a), "equals-original")
	vsym.Assert(b.Checksum() == a.Checksum(), "checksum-roundtrip")
	vsym.Assert(b.Validate() == nil, "validates")
	// the decoded bitmap supports further operations
	x := vArg32()
	had := da.has(x)
	vsym.Assert(b.CheckedAdd(x) == !had, "usable-after-decode")
	vBitmapExact(b, da.withPoint(vOpOr, x).spec(), false)
	vBUnchanged(a, snap, "original-unaffected")
	vsym.Reach("end")
}

// VerifC05WriterFault: a writer failing at any byte offset makes WriteTo return an error.
func VerifC05WriterFault() {
	a, _ := vGenBitmap("a")
	size := int(a.GetSerializedSizeInBytes())
	f := vsym.Int()
	vsym.Assume(f >= 0)
	vsym.Assume(f < size)
	w := &vFailWriter{limit: f}
	n, err := a.WriteTo(w)
	vsym.Assert(err != nil, "writeto-reports-failure")
	vsym.Assert(n <= int64(f), "writeto-count-on-failure")
	w2 := &vFailWriter{limit: size}
	n2, err2 := a.WriteTo(w2)
	vsym.Assert(vsym.And(err2 == nil, n2 == int64(size)), "writeto-exact-fit")
	vsym.Reach("end")
}
