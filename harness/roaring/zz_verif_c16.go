//go:build verif

package roaring

import "github.com/RoaringBitmap/roaring/v2/internal/vsym"

func init() {
	vsym.Register("VerifC16Offset", VerifC16Offset)
	vsym.Register("VerifC16Flip", VerifC16Flip)
	vsym.Register("VerifC16Dense", VerifC16Dense)
	vsym.Register("VerifC16FromDense", VerifC16FromDense)
}

// VerifC16Offset: AddOffset64(b, d) = {v+d : v in b, 0 <= v+d < 2^32}, b unchanged, result independent.
//
//	params: off, offm (d = off + (free & offm), as signed), u (1: AddOffset with uint32), a*, xb, xm (probe window)
func VerifC16Offset() {
	a, da := vGenBitmap("a")
	snap := vBSnapshot(a)
	var d int64
	var r *Bitmap
	if vsym.Param("u") == 1 {
		u := uint32(vsym.Param("off")) + (vsym.U32() & uint32(vsym.Param("offm")))
		d = int64(u)
		r = AddOffset(a, u)
	} else {
		d = int64(vsym.Param("off")) + int64(vsym.U64()&uint64(vsym.Param("offm")))
		vsym.Assume(d > -(1 << 32))
		vsym.Assume(d < 1<<32)
		r = AddOffset64(a, d)
	}
	vBUnchanged(a, snap, "argument-modified")
	if vsym.Param("inv") == 1 {
		// C09 mode: the result satisfies the full invariant and validates
		vBitmapWf(r, true)
		vsym.Assert(r.Validate() == nil, "validate")
		vsym.Reach("end")
		return
	}
	vBitmapWf(r, false)
	y := vArg32()
	v := int64(y) - d
	inRange := vsym.And(v >= 0, v < 1<<32)
	want := vsym.And(inRange, da.has(uint32(v)))
	vsym.Assert(vBitmapHas(r, y) == want, "offset-exact")
	// cardinality: elements that stay inside [0, 2^32)
	lo := vsym.IteI64(d < 0, -d, 0)            // smallest v kept
	hi := vsym.IteI64(d > 0, (1<<32)-d, 1<<32) // exclusive
	kept := vsym.IteInt(lo < hi, da.countLT(uint64(hi))-da.countLT(uint64(lo)), 0)
	vsym.Assert(vBitmapCard(r) == kept, "offset-cardinality")
	vsym.Observe(uint64(len(r.highlowcontainer.keys)))
	// independence
	snapR := vBSnapshot(r)
	a.Add(vArg32())
	vBUnchanged(r, snapR, "result-changed-by-mutating-the-argument")
	vsym.Reach("end")
}

// VerifC16Flip: Flip(b, s, e) is what in-place Flip produces, and leaves b unchanged.
func VerifC16Flip() {
	a, da := vGenBitmap("a")
	snap := vBSnapshot(a)
	s, e := vRangeArgs()
	r := Flip(a, s, e)
	vBUnchanged(a, snap, "argument-modified")
	if vsym.Param("inv") == 1 {
		// C09 mode: the result satisfies the full invariant and validates
		vBitmapWf(r, true)
		vsym.Assert(r.Validate() == nil, "validate")
		vsym.Reach("end")
		return
	}
	kmin := vsym.Param("sb") >> 16
	kmax := (vsym.Param("sb") + vsym.Param("sm") + vsym.Param("len")) >> 16
	if vsym.Param("len") < 0 {
		kmax = (vsym.Param("eb") + vsym.Param("em")) >> 16
	}
	if kmax > 65535 {
		kmax = 65535
	}
	vBitmapExact(r, da.withRange(vOpXor, s, e, kmin, kmax).spec(), false)
	c := a.Clone()
	c.Flip(s, e)
	vsym.Assert(r.Equals(c), "static-equals-inplace")
	snapR := vBSnapshot(r)
	a.Add(vArg32())
	vBUnchanged(r, snapR, "result-changed-by-mutating-the-argument")
	vsym.Reach("end")
}

// VerifC16Dense: ToDense / WriteDenseTo / DenseSize give the plain bit vector.
func VerifC16Dense() {
	a, da := vGenBitmap("a")
	snap := vBSnapshot(a)
	if vsym.Param("sizeonly") == 1 {
		// bitmaps reaching up to 2^32-1: the dense form has 2^26 words, only its size is checked
		sz := a.DenseSize()
		vsym.Observe(sz)
		vsym.Assert(sz == uint64(a.Maximum())/64+1, "dense-size-formula")
		vBUnchanged(a, snap, "argument-modified")
		vsym.Reach("end")
		return
	}
	dense := a.ToDense()
	sz := a.DenseSize()
	vsym.Assert(uint64(len(dense)) == sz, "dense-size")
	if len(da.keys) > 0 {
		// DenseSize: words up to and including the word of the maximum
		mx := a.Maximum()
		vsym.Assert(sz == uint64(mx)/64+1, "dense-size-formula")
	} else {
		vsym.Assert(sz == 0, "dense-size-formula")
	}
	y := vArg32()
	if len(dense) > 0 {
		inside := uint64(y)/64 < uint64(len(dense))
		bit := false
		if len(dense) > 0 {
			idx := vsym.IteInt(inside, int(y/64), 0)
			bit = vsym.And(inside, (dense[idx]>>(y&63))&1 == 1)
		}
		vsym.Assert(bit == da.has(y), "dense-bits")
	}
	// WriteDenseTo into a larger pre-filled buffer: sets exactly the bits (ORs into the buffer? documented: writes)
	buf := make([]uint64, len(dense))
	a.WriteDenseTo(buf)
	same := true
	for i := range dense {
		same = vsym.And(same, buf[i] == dense[i])
	}
	vsym.Assert(same, "writedenseto-equals-todense")
	vBUnchanged(a, snap, "argument-modified")
	vsym.Observe(uint64(len(dense)))
	vsym.Reach("end")
}

// VerifC16FromDense: FromDense(words, doCopy) inverts the dense form for any word slice; without copying, the
// caller's words are never written by later mutations.
//
//	params: n (number of words), pat (0: zeros + free words; 1: first 1024 words mostly ones so that the chunk is a bitmap container), copy (doCopy), mth (0 function, 1 method), xb, xm
func VerifC16FromDense() {
	n, pat := vsym.Param("n"), vsym.Param("pat")
	words := make([]uint64, n)
	free := []int{0, 1, n - 1, 1023, 1024}
	if pat == 1 {
		for i := 0; i < n && i < 1024; i++ {
			if i < 80 {
				words[i] = ^uint64(0)
			}
		}
	}
	fm := vFreeMask(vsym.Param("nbits"))
	for _, f := range free {
		if f >= 0 && f < n {
			words[f] = (words[f] &^ fm) | (vsym.U64() & fm)
		}
	}
	keep := append([]uint64(nil), words...)
	doCopy := vsym.Param("copy") == 1
	if !doCopy {
		vsym.FreezeWords(words)
	}
	var r *Bitmap
	if vsym.Param("mth") == 1 {
		r = NewBitmap()
		r.FromDense(words, doCopy)
	} else {
		r = FromDense(words, doCopy)
	}
	vBitmapWf(r, false)
	y := vArg32()
	inside := uint64(y)/64 < uint64(n)
	idx := vsym.IteInt(inside, int(y/64), 0)
	want := vsym.And(inside, (keep[idx]>>(y&63))&1 == 1)
	vsym.Assert(vBitmapHas(r, y) == want, "fromdense-exact")
	card := 0
	for _, w := range keep {
		card += vPop64(w)
	}
	vsym.Assert(vBitmapCard(r) == card, "fromdense-cardinality")
	// later mutations: exact, and never write the caller's words when they were not copied
	x := vArg32()
	r.Add(x)
	r.Remove(vArg32())
	same := true
	for i := range keep {
		same = vsym.And(same, words[i] == keep[i])
	}
	vsym.Assert(same, "caller-words-written")
	vsym.Reach("end")
}
