//go:build verif

package roaring

import "github.com/RoaringBitmap/roaring/v2/internal/vsym"

func init() {
	vsym.Register("VerifC11Aggregate", VerifC11Aggregate)
}

// VerifC11Aggregate: many-way aggregates equal the fold of the binary operation.
//
//	params: g (0 FastOr 1 HeapOr 2 HeapXor 3 FastAnd 4 AndAny 5 ParOr 6 ParAnd 7 ParHeapOr), w (workers), lst (decimal digits, most significant first:
//	        1=a 2=b 3=c 4=empty bitmap; 0 = empty list), a*, b*, c*
func VerifC11Aggregate() {
	g, w, lst := vsym.Param("g"), vsym.Param("w"), vsym.Param("lst")
	var gens [4]*Bitmap
	var descs [4]*vBDesc
	var list []*Bitmap
	var dl []*vBDesc
	var digits []int
	for l := lst; l > 0; l /= 10 {
		digits = append([]int{l % 10}, digits...)
	}
	names := []string{"", "a", "b", "c"}
	for _, d := range digits {
		if d == 4 {
			list = append(list, NewBitmap())
			dl = append(dl, &vBDesc{})
			continue
		}
		if gens[d] == nil {
			gens[d], descs[d] = vGenBitmap(names[d])
		}
		list = append(list, gens[d])
		dl = append(dl, descs[d])
	}
	var snaps []*vBSnap
	for _, b := range list {
		snaps = append(snaps, vBSnapshot(b))
	}
	fold := func(op int, x uint32, from int) bool {
		if len(dl) == from {
			return false
		}
		r := dl[from].has(x)
		for _, d := range dl[from+1:] {
			r = vBoolOp(op, r, d.has(x))
		}
		return r
	}
	var r *Bitmap
	var spec func(x uint32) bool
	switch g {
	case 0:
		r = FastOr(list...)
		spec = func(x uint32) bool { return fold(vOpOr, x, 0) }
	case 1:
		r = HeapOr(list...)
		spec = func(x uint32) bool { return fold(vOpOr, x, 0) }
	case 2:
		r = HeapXor(list...)
		spec = func(x uint32) bool { return fold(vOpXor, x, 0) }
	case 3:
		r = FastAnd(list...)
		spec = func(x uint32) bool {
			if len(dl) == 0 {
				return false
			}
			return fold(vOpAnd, x, 0)
		}
	case 4:
		// x.AndAny(rest...) for a non-empty rest: x ∩ (∪ rest)
		if len(list) >= 2 {
			list[0].AndAny(list[1:]...)
			r = list[0]
			d0 := dl[0]
			spec = func(x uint32) bool { return vsym.And(d0.has(x), fold(vOpOr, x, 1)) }
		}
	case 5:
		r = ParOr(w, list...)
		spec = func(x uint32) bool { return fold(vOpOr, x, 0) }
	case 6:
		r = ParAnd(w, list...)
		spec = func(x uint32) bool {
			if len(dl) == 0 {
				return false
			}
			return fold(vOpAnd, x, 0)
		}
	case 7:
		r = ParHeapOr(w, list...)
		spec = func(x uint32) bool { return fold(vOpOr, x, 0) }
	}
	if r != nil {
		vBitmapWf(r, vsym.Param("inv") == 1)
		// probe: unconstrained unless the result holds a large chunk (then the instance's window keeps the word index concrete)
		big := false
		for _, c := range r.highlowcontainer.containers {
			switch t := c.(type) {
			case *bitmapContainer:
				big = true
			case *arrayContainer:
				if len(t.content) > 64 {
					big = true
				}
			}
		}
		x := vArg32()
		if !big {
			x = vsym.U32()
		}
		vsym.Assert(vBitmapHas(r, x) == spec(x), "exact-set")
		vsym.Observe(uint64(len(r.highlowcontainer.keys)))
		if vsym.Param("inv") == 1 {
			vsym.Assert(r.Validate() == nil, "validate")
		}
	}
	for i, b := range list {
		if g == 4 && i == 0 {
			continue
		}
		same := false
		for j := 0; j < i; j++ {
			if list[j] == b {
				same = true
			}
		}
		if !same {
			vBUnchanged(b, snaps[i], "argument-modified")
		}
	}
	vsym.Reach("end")
}
