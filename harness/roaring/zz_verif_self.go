//go:build verif

package roaring

// Translator self-test: the engine's intrinsics (bit-vector models of math/bits functions, the growslice capacity model,
// the sort.Slice model, unsafe re-typings) against independent definitions written here and against the native build.
// Not tied to a property; run by `./check --selftest`.

import (
	"math/bits"
	"sort"

	"github.com/RoaringBitmap/roaring/v2/internal/vsym"
)

func init() {
	vsym.Register("VerifSelfBits", VerifSelfBits)
	vsym.Register("VerifSelfGrow", VerifSelfGrow)
	vsym.Register("VerifSelfSort", VerifSelfSort)
	vsym.Register("VerifSelfCast", VerifSelfCast)
}

// branch-free reference definitions
func vRefLen(x uint64, w int) int {
	n := 0
	for i := 0; i < w; i++ {
		n += vsym.B2I(x>>uint(i) != 0)
	}
	return n
}

func vRefTZ(x uint64, w int) int {
	n := 0
	for i := 0; i < w; i++ {
		n += vsym.B2I(x&(uint64(1)<<uint(i+1)-1) == 0) // the low i+1 bits are all zero
	}
	return n
}

func vRefPop(x uint64, w int) int {
	n := 0
	for i := 0; i < w; i++ {
		n += int(x >> uint(i) & 1)
	}
	return n
}

// VerifSelfBits: for ALL x of width w, the intrinsic equals the reference.
//
//	params: w (8, 16, 32, 64), f (0 TrailingZeros, 1 Len, 2 LeadingZeros, 3 OnesCount = real SWAR code)
func VerifSelfBits() {
	w, f := vsym.Param("w"), vsym.Param("f")
	x := vsym.U64()
	if w < 64 {
		x &= uint64(1)<<uint(w) - 1
	}
	got, want := 0, 0
	switch f {
	case 0:
		want = vRefTZ(x, w)
		switch w {
		case 8:
			got = bits.TrailingZeros8(uint8(x))
		case 16:
			got = bits.TrailingZeros16(uint16(x))
		case 32:
			got = bits.TrailingZeros32(uint32(x))
		case 64:
			got = bits.TrailingZeros64(x)
		}
	case 1:
		want = vRefLen(x, w)
		switch w {
		case 8:
			got = bits.Len8(uint8(x))
		case 16:
			got = bits.Len16(uint16(x))
		case 32:
			got = bits.Len32(uint32(x))
		case 64:
			got = bits.Len64(x)
		}
	case 2:
		want = w - vRefLen(x, w)
		switch w {
		case 8:
			got = bits.LeadingZeros8(uint8(x))
		case 16:
			got = bits.LeadingZeros16(uint16(x))
		case 32:
			got = bits.LeadingZeros32(uint32(x))
		case 64:
			got = bits.LeadingZeros64(x)
		}
	case 3:
		want = vRefPop(x, w)
		switch w {
		case 8:
			got = bits.OnesCount8(uint8(x))
		case 16:
			got = bits.OnesCount16(uint16(x))
		case 32:
			got = bits.OnesCount32(uint32(x))
		case 64:
			got = bits.OnesCount64(x)
		}
	}
	vsym.Observe(uint64(got))
	vsym.Assert(got == want, "intrinsic-equals-reference")
	vsym.Reach("end")
}

// VerifSelfGrow: capacities after append for every length 0..n-1 and the element sizes the library uses; the VM's
// predictions are compared with the native run by the witness replay (Observe sequence).
func VerifSelfGrow() {
	n := vsym.Param("n")
	k := vsym.Param("k") // elements appended at once
	v := vsym.U16()
	for i := 0; i < n; i++ {
		a := make([]uint16, i)
		a = append(a, make([]uint16, k)...)
		vsym.Observe(uint64(cap(a)))
		b := make([]uint64, i)
		b = append(b, make([]uint64, k)...)
		vsym.Observe(uint64(cap(b)))
		c := make([]interval16, i)
		c = append(c, make([]interval16, k)...)
		vsym.Observe(uint64(cap(c)))
		d := make([]byte, i)
		d = append(d, make([]byte, k)...)
		vsym.Observe(uint64(cap(d)))
		e := make([]container, i)
		e = append(e, make([]container, k)...)
		vsym.Observe(uint64(cap(e)))
		f := make([]bool, i)
		f = append(f, make([]bool, k)...)
		vsym.Observe(uint64(cap(f)))
		// growth from a slice with spare capacity
		g := make([]uint16, i, i+3)
		g = append(g, v, v, v, v)
		vsym.Observe(uint64(cap(g)))
	}
	vsym.Reach("end")
}

// VerifSelfSort: sort.Slice on n symbolic values yields the sorted permutation.
func VerifSelfSort() {
	n := vsym.Param("n")
	a := make([]uint16, n)
	sum := uint64(0)
	for i := range a {
		a[i] = vsym.U16()
		sum += uint64(a[i])
	}
	sort.Slice(a, func(i, j int) bool { return a[i] < a[j] })
	ok := true
	got := uint64(0)
	for i := range a {
		got += uint64(a[i])
		if i > 0 {
			ok = vsym.And(ok, a[i-1] <= a[i])
		}
		vsym.Observe(uint64(a[i]))
	}
	vsym.Assert(ok, "sorted")
	vsym.Assert(got == sum, "same-sum")
	vsym.Reach("end")
}

// VerifSelfCast: the unsafe re-typings the library uses are little-endian views of the same memory.
func VerifSelfCast() {
	b := make([]byte, 16)
	for i := range b {
		b[i] = vsym.U8()
	}
	u16 := byteSliceAsUint16Slice(b)
	u64 := byteSliceAsUint64Slice(b)
	iv := byteSliceAsInterval16Slice(b)
	vsym.Assert(len(u16) == 8, "len16")
	vsym.Assert(len(u64) == 2, "len64")
	vsym.Assert(len(iv) == 4, "leniv")
	vsym.Assert(u16[3] == uint16(b[6])|uint16(b[7])<<8, "u16-le")
	want := uint64(0)
	for i := 0; i < 8; i++ {
		want |= uint64(b[8+i]) << uint(8*i)
	}
	vsym.Assert(u64[1] == want, "u64-le")
	vsym.Assert(iv[2].start == uint16(b[8])|uint16(b[9])<<8, "iv-start")
	vsym.Assert(iv[2].length == uint16(b[10])|uint16(b[11])<<8, "iv-length")
	// a store through one view is seen through the others
	x := vsym.U16()
	u16[5] = x
	vsym.Assert(b[10] == byte(x), "store-lo")
	vsym.Assert(b[11] == byte(x>>8), "store-hi")
	vsym.Assert(iv[2].length == x, "store-seen-as-interval")
	back := uint16SliceAsByteSlice(u16)
	vsym.Assert(len(back) == 16, "back-len")
	vsym.Assert(back[11] == byte(x>>8), "back-view")
	vsym.Observe(uint64(u64[1]))
	vsym.Reach("end")
}
