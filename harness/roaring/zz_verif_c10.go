//go:build verif

package roaring

import (
	"bytes"
	"encoding/base64"

	"github.com/RoaringBitmap/roaring/v2/internal/vsym"
)

func init() {
	vsym.Register("VerifC10Decode", VerifC10Decode)
	vsym.Register("VerifC10Prefix", VerifC10Prefix)
	vsym.Register("VerifC10ValidateSound", VerifC10ValidateSound)
	vsym.Register("VerifC10Must", VerifC10Must)
}

func vDecode(rd int, b *Bitmap, data []byte) error {
	var err error
	switch rd {
	case 0:
		_, err = b.FromBuffer(data)
	case 1:
		_, err = b.FromUnsafeBytes(data)
	case 2:
		_, err = b.ReadFrom(bytes.NewReader(data))
	case 3:
		err = b.UnmarshalBinary(data)
	case 4:
		err = b.FrozenView(data)
	case 5:
		err = b.MustFrozenView(data)
	}
	return err
}

// consistency battery on a decoded bitmap that passed Validate: it must behave as a genuine set
func vGenuineSet(b *Bitmap) {
	ra := &b.highlowcontainer
	card := 0
	for _, c := range ra.containers {
		card += vContainerCard(c)
	}
	vsym.Assert(b.GetCardinality() == uint64(card), "valid-cardinality-consistent")
	x := vsym.U32()
	in := vBitmapHas(b, x)
	vsym.Assert(b.Contains(x) == in, "valid-contains-consistent")
	if card <= 12 {
		arr := b.ToArray()
		vsym.Assert(len(arr) == card, "valid-toarray-length")
		ok := true
		listed := false
		for i := range arr {
			if i > 0 {
				ok = vsym.And(ok, arr[i-1] < arr[i])
			}
			listed = vsym.Or(listed, arr[i] == x)
		}
		vsym.Assert(ok, "valid-toarray-sorted")
		vsym.Assert(listed == in, "valid-toarray-is-contains")
		// rank/select agree with the listing
		if len(arr) > 0 {
			vsym.Assert(b.Rank(arr[len(arr)-1]) == uint64(card), "valid-rank")
			vsym.Assert(b.Minimum() == arr[0], "valid-minimum")
		}
		// re-serializing round-trips
		out, err := b.ToBytes()
		vsym.Assert(err == nil, "valid-reserialize")
		c := NewBitmap()
		_, err = c.FromBuffer(out)
		vsym.Assert(err == nil, "valid-reread")
		vsym.Assert(c.Contains(x) == in, "valid-roundtrip")
		// an operation with another valid bitmap is exact
		o := BitmapOf(7, 65536+9)
		u := Or(b, o)
		vsym.Assert(u.Contains(x) == vsym.Or(in, vsym.Or(x == 7, x == 65536+9)), "valid-or-exact")
	}
}

// VerifC10Decode: any byte string of length L: the decoder returns an error or a bitmap - no panic, no read outside the
// buffer, no runaway allocation, no hang (step budget); if Validate accepts the result it is a genuine set.
//
//	params: L, rd
func VerifC10Decode() {
	L, rd := vsym.Param("L"), vsym.Param("rd")
	data := make([]byte, L)
	for i := range data {
		data[i] = vsym.U8()
	}
	b := NewBitmap()
	err := vDecode(rd, b, data)
	vsym.ObserveBool(err == nil)
	if err == nil && rd != 5 {
		if b.Validate() == nil {
			vBitmapWf(b, true)
			vGenuineSet(b)
		}
	}
	vsym.Reach("end")
}

// VerifC10Prefix: every proper prefix of a valid portable stream is rejected with an error by every entry point.
func VerifC10Prefix() {
	a, _ := vGenBitmap("a")
	data, err := a.ToBytes()
	vsym.Assert(err == nil, "write-ok")
	var p int
	if pe := vsym.Param("pe"); pe > 0 {
		p = len(data) - 1 - vsym.Choice(pe) // the last pe proper prefixes (1..pe bytes cut off)
		vsym.Assume(p >= 0)
	} else if pw := vsym.Param("pw"); pw > 0 {
		p = vsym.Param("pb") + vsym.Choice(pw) // long streams: prefix lengths in a window
		vsym.Assume(p < len(data))
	} else {
		p = vsym.Choice(len(data)) // prefix length 0..len-1
	}
	b := NewBitmap()
	var e error
	if vsym.Param("rd") == 6 {
		// the text entry point: the prefix as (padded) base64
		_, e = b.FromBase64(base64.StdEncoding.EncodeToString(data[:p:p]))
	} else {
		e = vDecode(vsym.Param("rd"), b, data[:p:p])
	}
	vsym.Assert(e != nil, "prefix-rejected")
	vsym.Reach("end")
}

// VerifC10Must: MustReadFrom returns ReadFrom's (n, err) and panics only to report a validation failure.
func VerifC10Must() {
	L := vsym.Param("L")
	data := make([]byte, L)
	for i := range data {
		data[i] = vsym.U8()
	}
	b1 := NewBitmap()
	n1, e1 := b1.ReadFrom(bytes.NewReader(data))
	valid := false
	if e1 == nil {
		valid = b1.Validate() == nil
	}
	b2 := NewBitmap()
	var n2 int64
	var e2 error
	panicked := vsym.Catch(func() { n2, e2 = b2.MustReadFrom(bytes.NewReader(data)) })
	// a panic is allowed only to report that a successfully decoded bitmap does not validate
	vsym.Assert(vsym.Implies(panicked, vsym.And(e1 == nil, !valid)), "must-panics-only-on-validation-failure")
	vsym.Assert(vsym.Implies(vsym.And(e1 == nil, !valid), panicked), "must-reports-validation-failure")
	if !panicked {
		vsym.Assert(n2 == n1, "must-returns-readfrom-count")
		vsym.Assert((e2 == nil) == (e1 == nil), "must-returns-readfrom-error")
	}
	vsym.Reach("end")
}

// VerifC10ValidateSound (V => I): containers with UNCONSTRAINED representation; if validate() accepts, the harness invariant holds.
//
//	params: k (kind), n (elements / runs)
func VerifC10ValidateSound() {
	k, n := vsym.Param("k"), vsym.Param("n")
	if k == 3 {
		// whole bitmap: n chunks with UNCONSTRAINED keys and possibly mismatched parallel slices
		rb := &Bitmap{}
		ra := &rb.highlowcontainer
		for i := 0; i < n; i++ {
			c, _ := vGenArray(1)
			ra.keys = append(ra.keys, vsym.U16())
			ra.containers = append(ra.containers, c)
			ra.needCopyOnWrite = append(ra.needCopyOnWrite, false)
		}
		switch vsym.Param("skew") {
		case 1:
			ra.keys = append(ra.keys, vsym.U16())
		case 2:
			ra.needCopyOnWrite = ra.needCopyOnWrite[:n-1]
		}
		if rb.Validate() == nil {
			vBitmapWf(rb, true)
		}
		vsym.Reach("end")
		return
	}
	var c container
	switch k {
	case vKArray:
		ct := make([]uint16, n)
		for i := range ct {
			ct[i] = vsym.U16()
		}
		c = &arrayContainer{content: ct}
	case vKRun:
		iv := make([]interval16, n)
		for i := range iv {
			iv[i] = interval16{start: vsym.U16(), length: vsym.U16()}
		}
		c = &runContainer16{iv: iv}
	case vKBitmap:
		bc, _ := vGenBitmapC(vsym.Param("pat"), []int{0, 1023}, 3)
		bc.cardinality = vsym.Int() // free cached cardinality
		c = bc
	}
	if c.validate() == nil {
		vCheckWf(c, false, true)
		// and the derived queries are consistent with the representation
		x := vsym.U16()
		vsym.Assert(c.contains(x) == vContainerHas(c, x), "valid-contains-consistent")
		if k != vKBitmap {
			vsym.Assert(c.getCardinality() == vContainerCard(c), "valid-cardinality-consistent")
		}
	}
	vsym.Reach("end")
}
