//go:build verif

package roaring

import "github.com/RoaringBitmap/roaring/v2/internal/vsym"

func init() {
	vsym.Register("VerifC03Query", VerifC03Query)
	vsym.Register("VerifC15Neighbour", VerifC15Neighbour)
	vsym.Register("VerifC15Container", VerifC15Container)
}

// number of members of the described chunk that are <= v
func (d *vDesc) countLE(v uint16) int {
	n := 0
	switch d.kind {
	case vKArray:
		for _, e := range d.elems {
			n += vsym.B2I(e <= v)
		}
	case vKRun:
		for _, iv := range d.ivs {
			s, e := int(iv.s), int(iv.s)+int(iv.l)
			x := int(v)
			top := vsym.IteInt(x < e, x, e)
			n += vsym.IteInt(x < s, 0, top-s+1)
		}
	case vKBitmap:
		n = vPatCountLE(d.pat, v)
		for k, idx := range d.freeIdx {
			n -= vWordCountLE(vPatWord(d.pat, idx), idx, v)
			n += vWordCountLE(d.freeVal[k], idx, v)
		}
	}
	return n
}

func vClamp(x, lo, hi int) int {
	x = vsym.IteInt(x < lo, lo, x)
	return vsym.IteInt(x > hi, hi, x)
}

func vPatCountLE(pat int, v uint16) int {
	x := int(v) + 1
	switch pat {
	case vPatHi:
		return x
	case vPatAlt:
		return x >> 1
	case vPatZero:
		return 0
	}
	lo, hi := vPatRange(pat)
	return vClamp(x-lo, 0, hi-lo)
}

// number of set bits of word w (word index i) at positions whose value is <= v
func vWordCountLE(w uint64, i int, v uint16) int {
	wi := int(v >> 6)
	m := ^uint64(0) >> (63 - (v & 63))
	part := vPop64(w & m)
	return vsym.IteInt(i < wi, vPop64(w), vsym.IteInt(i == wi, part, 0))
}

// number of members of the described bitmap that are <= x
func (d *vBDesc) countLE(x uint32) int {
	hi, lo := uint16(x>>16), uint16(x)
	n := 0
	for j, k := range d.keys {
		n += vsym.IteInt(k < hi, d.cs[j].card(), vsym.IteInt(k == hi, d.cs[j].countLE(lo), 0))
	}
	return n
}

// number of members < t for t in [0, 2^32]
func (d *vBDesc) countLT(t uint64) int {
	return vsym.IteInt(t == 0, 0, d.countLE(uint32(t-1)))
}

// query argument: xb + (free & xm)  (xm = -1: unconstrained)
func vArg32() uint32 {
	xb, xm := vsym.Param("xb"), vsym.Param("xm")
	if xm < 0 {
		return vsym.U32()
	}
	return uint32(xb) + (vsym.U32() & uint32(xm))
}

// VerifC03Query: one read-only query on a symbolic bitmap.
//
//	params: q; a* (bitmap), b* (second bitmap for Equals); xb,xm (argument window)
func VerifC03Query() {
	q := vsym.Param("q")
	a, da := vGenBitmap("a")
	snap := vBSnapshot(a)
	card := da.card()
	switch q {
	case 0:
		vsym.Assert(a.GetCardinality() == uint64(card), "cardinality")
		vsym.Assert(a.IsEmpty() == (card == 0), "is-empty")
		vsym.Observe(a.GetCardinality())
	case 1:
		x := vArg32()
		vsym.Assert(a.Contains(x) == da.has(x), "contains")
	case 2:
		if len(da.keys) > 0 {
			mn, mx := a.Minimum(), a.Maximum()
			vsym.Observe(uint64(mn))
			vsym.Assert(vsym.And(da.has(mn), da.countLE(mn) == 1), "minimum")
			vsym.Assert(vsym.And(da.has(mx), da.countLE(mx) == card), "maximum")
		}
	case 3:
		x := vArg32()
		r := a.Rank(x)
		vsym.Observe(r)
		vsym.Assert(r == uint64(da.countLE(x)), "rank")
	case 4:
		i := vArg32()
		v, err := a.Select(i)
		inRange := uint64(i) < uint64(card)
		vsym.Assert((err == nil) == inRange, "select-error")
		if err == nil {
			vsym.Observe(uint64(v))
			vsym.Assert(vsym.And(da.has(v), uint64(da.countLE(v)) == uint64(i)+1), "select")
		}
	case 5:
		s, e := vArg64(), vArg64()
		vsym.Assume(s <= 1<<32)
		vsym.Assume(e <= 1<<32)
		want := vsym.IteInt(s < e, da.countLT(e)-da.countLT(s), 0)
		got := a.CardinalityInRange(s, e)
		vsym.Observe(got)
		vsym.Assert(got == uint64(want), "cardinality-in-range")
		vsym.Assert(a.IntersectsWithInterval(s, e) == (want > 0), "intersects-with-interval")
	case 6:
		b, db := vGenBitmap("b")
		n := vBCountAnd(da, db)
		eq := a.Equals(b)
		vsym.ObserveBool(eq)
		vsym.Assert(eq == vsym.And(n == card, n == db.card()), "equals")
		vsym.Assert(a.Equals(a.Clone()), "equals-clone")
	case 7:
		arr := a.ToArray()
		vsym.Assert(len(arr) == card, "toarray-len")
		ok := true
		for i := range arr {
			ok = vsym.And(ok, da.has(arr[i]))
			if i > 0 {
				ok = vsym.And(ok, arr[i-1] < arr[i])
			}
		}
		vsym.Assert(ok, "toarray-elements")
		buf := make([]uint32, len(arr))
		a.ToExistingArray(&buf)
		same := len(buf) == len(arr)
		for i := range arr {
			if i < len(buf) {
				same = vsym.And(same, buf[i] == arr[i])
			}
		}
		vsym.Assert(same, "toexistingarray")
	case 8:
		vsym.Assert(a.Checksum() == a.Clone().Checksum(), "checksum-clone")
	}
	vBUnchanged(a, snap, "query-read-only")
	vsym.Reach("end")
}

func vArg64() uint64 {
	xb, xm := vsym.Param("xb"), vsym.Param("xm")
	if xm < 0 {
		return vsym.U64()
	}
	return uint64(xb) + (vsym.U64() & uint64(xm))
}

// VerifC15Neighbour: the four neighbour queries with a free target and a free probe.
//
//	params: q (0 next, 1 previous, 2 next absent, 3 previous absent); a*; xb,xm
func VerifC15Neighbour() {
	q := vsym.Param("q")
	a, da := vGenBitmap("a")
	t := vArg32()
	y := vsym.U32() // the probe is NOT confined to the target's window
	switch q {
	case 0:
		r := a.NextValue(t)
		vsym.Observe(uint64(r))
		none := r == -1
		vsym.Assert(vsym.Implies(none, vsym.Implies(y >= t, !da.has(y))), "next-none-but-exists")
		vsym.Assert(vsym.Implies(!none, vsym.And(r >= int64(t), r <= 0xFFFFFFFF)), "next-side")
		vsym.Assert(vsym.Implies(!none, da.has(uint32(r))), "next-membership")
		vsym.Assert(vsym.Implies(vsym.And(!none, vsym.And(y >= t, int64(y) < r)), !da.has(y)), "next-not-nearest")
	case 1:
		r := a.PreviousValue(t)
		vsym.Observe(uint64(r))
		none := r == -1
		vsym.Assert(vsym.Implies(none, vsym.Implies(y <= t, !da.has(y))), "prev-none-but-exists")
		vsym.Assert(vsym.Implies(!none, vsym.And(r <= int64(t), r >= 0)), "prev-side")
		vsym.Assert(vsym.Implies(!none, da.has(uint32(r))), "prev-membership")
		vsym.Assert(vsym.Implies(vsym.And(!none, vsym.And(y <= t, int64(y) > r)), !da.has(y)), "prev-not-nearest")
	case 2:
		r := a.NextAbsentValue(t)
		vsym.Observe(uint64(r))
		none := r == -1
		vsym.Assert(vsym.Implies(none, vsym.Implies(y >= t, da.has(y))), "nextabsent-none-but-exists")
		vsym.Assert(vsym.Implies(!none, vsym.And(r >= int64(t), r <= 0xFFFFFFFF)), "nextabsent-side")
		vsym.Assert(vsym.Implies(!none, !da.has(uint32(r))), "nextabsent-membership")
		vsym.Assert(vsym.Implies(vsym.And(!none, vsym.And(y >= t, int64(y) < r)), da.has(y)), "nextabsent-not-nearest")
	case 3:
		r := a.PreviousAbsentValue(t)
		vsym.Observe(uint64(r))
		none := r == -1
		vsym.Assert(vsym.Implies(none, vsym.Implies(y <= t, da.has(y))), "prevabsent-none-but-exists")
		vsym.Assert(vsym.Implies(!none, vsym.And(r <= int64(t), r >= 0)), "prevabsent-side")
		vsym.Assert(vsym.Implies(!none, !da.has(uint32(r))), "prevabsent-membership")
		vsym.Assert(vsym.Implies(vsym.And(!none, vsym.And(y <= t, int64(y) > r)), da.has(y)), "prevabsent-not-nearest")
	}
	vsym.Reach("end")
}

// VerifC15Container: the per-kind neighbour helpers with the sentinel conventions the drivers consume:
// nextValue/previousValue: -1 = none; nextAbsentValue: 65536 = none; previousAbsentValue: -1 = none.
//
//	params: q, k, s (kind, shape), xb, xm (16-bit window), L
func VerifC15Container() {
	q := vsym.Param("q")
	c, d := vGenContainer(vsym.Param("k"), vsym.Param("s"))
	t := uint16(vArg32())
	y := vsym.U16() // the probe is NOT confined to the target's window: the nearest absent / present value can be far away
	switch q {
	case 0:
		r := c.nextValue(t)
		none := r == -1
		vsym.Assert(vsym.Implies(none, vsym.Implies(y >= t, !d.has(y))), "c-next-none-but-exists")
		vsym.Assert(vsym.Implies(!none, vsym.And(r >= int(t), r <= 65535)), "c-next-side")
		vsym.Assert(vsym.Implies(!none, d.has(uint16(r))), "c-next-membership")
		vsym.Assert(vsym.Implies(vsym.And(!none, vsym.And(y >= t, int(y) < r)), !d.has(y)), "c-next-not-nearest")
	case 1:
		r := c.previousValue(t)
		none := r == -1
		vsym.Assert(vsym.Implies(none, vsym.Implies(y <= t, !d.has(y))), "c-prev-none-but-exists")
		vsym.Assert(vsym.Implies(!none, vsym.And(r <= int(t), r >= 0)), "c-prev-side")
		vsym.Assert(vsym.Implies(!none, d.has(uint16(r))), "c-prev-membership")
		vsym.Assert(vsym.Implies(vsym.And(!none, vsym.And(y <= t, int(y) > r)), !d.has(y)), "c-prev-not-nearest")
	case 2:
		r := c.nextAbsentValue(t)
		vsym.Observe(uint64(r))
		none := r == 65536
		vsym.Assert(vsym.Implies(none, vsym.Implies(y >= t, d.has(y))), "c-nextabsent-none-but-exists")
		vsym.Assert(vsym.And(r >= int(t), r <= 65536), "c-nextabsent-side")
		vsym.Assert(vsym.Implies(!none, !d.has(uint16(r))), "c-nextabsent-membership")
		vsym.Assert(vsym.Implies(vsym.And(y >= t, int(y) < r), d.has(y)), "c-nextabsent-not-nearest")
	case 3:
		r := c.previousAbsentValue(t)
		vsym.Observe(uint64(r))
		none := r == -1
		vsym.Assert(vsym.Implies(none, vsym.Implies(y <= t, d.has(y))), "c-prevabsent-none-but-exists")
		vsym.Assert(vsym.And(r <= int(t), r >= -1), "c-prevabsent-side")
		vsym.Assert(vsym.Implies(!none, !d.has(uint16(r))), "c-prevabsent-membership")
		vsym.Assert(vsym.Implies(vsym.And(y <= t, int(y) > r), d.has(y)), "c-prevabsent-not-nearest")
	}
	vsym.Reach("end")
}
