//go:build verif

package roaring

import (
	"testing"

	"github.com/RoaringBitmap/roaring/v2/internal/vsym"
)

func TestVerifReplay(t *testing.T) { vsym.ReplayMain() }
