//go:build verif

package roaring

// C19/C20 harnesses for the 32-bit bit-sliced index (BitSliceIndexing): same structure as the roaring64 ones.
// Values are NON-NEGATIVE w-bit integers unless neg=1 (one negative value makes the index use 64 planes).

import (
	"github.com/RoaringBitmap/roaring/v2"
	"github.com/RoaringBitmap/roaring/v2/internal/vsym"
)

func init() {
	vsym.Register("VerifC19Update", VerifC19Update)
	vsym.Register("VerifC20Query", VerifC20Query)
}

type bPair struct {
	col  uint64
	val  int64
	live bool
}

type bModel struct{ ps []bPair }

func (m *bModel) set(c uint64, v int64) { m.ps = append(m.ps, bPair{c, v, true}) }
func (m *bModel) del(c uint64)          { m.ps = append(m.ps, bPair{c, 0, false}) }

func (m *bModel) get(c uint64) (int64, bool) {
	var v int64
	ex := false
	for _, p := range m.ps {
		hit := p.col == c
		v = vsym.IteI64(hit, p.val, v)
		ex = vsym.IteBool(hit, p.live, ex)
	}
	return v, ex
}

func (m *bModel) current(i int) bool {
	r := m.ps[i].live
	for j := i + 1; j < len(m.ps); j++ {
		r = vsym.And(r, m.ps[j].col != m.ps[i].col)
	}
	return r
}

func (m *bModel) card() int {
	n := 0
	for i := range m.ps {
		n += vsym.B2I(m.current(i))
	}
	return n
}

var vValN int

func vVal(w int) int64 {
	if vsym.Param("vfix") == 1 {
		vValN++
		return int64(vsym.Param("v" + []string{"0", "1", "2", "3", "4", "5"}[vValN-1]))
	}
	u := int64(vsym.U64() & (uint64(1)<<uint(w) - 1))
	if vsym.Param("neg") == 1 {
		return u - int64(1)<<uint(w-1)
	}
	return u
}

func vCol() uint64 {
	return uint64(vsym.Param("cb")) + (vsym.U64() & uint64(vsym.Param("cm")))
}

func vStepCol() uint64 {
	if vsym.Param("symcol") == 1 {
		return vCol()
	}
	return uint64(vsym.Param("cb")) + uint64(vsym.Param("sc"))
}

func vGenBSIAt(nv, w, colOff int) (*BSI, *bModel) {
	var b *BSI
	if vsym.Param("fixed") == 1 {
		b = NewBSI(int64(1)<<uint(w)-1, 0)
	} else {
		b = NewDefaultBSI()
	}
	m := &bModel{}
	for i := 0; i < nv; i++ {
		var c uint64
		if vsym.Param("symcol") == 1 {
			c = vCol()
		} else {
			c = uint64(vsym.Param("cb")) + uint64(colOff) + uint64(i%2)
		}
		v := vVal(w)
		b.SetValue(c, v)
		m.set(c, v)
	}
	return b, m
}

func vGenBSI(nv, w int) (*BSI, *bModel) { return vGenBSIAt(nv, w, 0) }

func vCheckBSICol(b *BSI, m *bModel, c uint64, label string) {
	wantV, wantE := m.get(c)
	v, e := b.GetValue(c)
	vsym.Assert(e == wantE, label+"-exists")
	vsym.Assert(vsym.Implies(wantE, v == wantV), label+"-value")
	vsym.Assert(b.ValueExists(c) == wantE, label+"-valueexists")
	vsym.Assert(b.GetCardinality() == uint64(m.card()), label+"-cardinality")
	for i := range b.bA {
		vsym.Assert(vsym.Implies(b.bA[i].Contains(uint32(c)), wantE), label+"-plane-outside-existence")
	}
}

func vCheckBSI(b *BSI, m *bModel, label string) {
	if vsym.Param("symcol") == 1 {
		vCheckBSICol(b, m, vCol(), label)
		return
	}
	for k := 0; k < 4; k++ {
		vCheckBSICol(b, m, uint64(vsym.Param("cb"))+uint64(k), label)
	}
}

func VerifC19Update() {
	vValN = 0
	nv, w, st := vsym.Param("nv"), vsym.Param("w"), vsym.Param("st")
	b, m := vGenBSI(nv, w)
	vCheckBSI(b, m, "pre")
	switch st {
	case 0:
		c, v := vStepCol(), vVal(vsym.Param("w2"))
		b.SetValue(c, v)
		m.set(c, v)
	case 2:
		c1, c2, v := vStepCol(), vStepCol()+1, vVal(vsym.Param("w2"))
		fs := roaring.NewBitmap()
		fs.Add(uint32(c1))
		fs.Add(uint32(c2))
		b.SetMany(fs, v)
		m.set(c1, v)
		m.set(c2, v)
	case 3:
		if vsym.Param("self") == 1 {
			// clear everything, passing the index's own existence bitmap as the found-set
			b.ClearValues(b.GetExistenceBitmap())
			for _, q := range append([]bPair(nil), m.ps...) {
				m.del(q.col)
			}
			break
		}
		c := vStepCol()
		fs := roaring.NewBitmap()
		fs.Add(uint32(c))
		b.ClearValues(fs)
		m.del(c)
	case 5:
		c := b.Clone()
		vCheckBSI(c, m, "clone")
		rs := b.NewBSIRetainSet(b.GetExistenceBitmap())
		vCheckBSI(rs, m, "retainset")
		// the copies are independent of the original
		c.SetValue(uint64(vsym.Param("cb")), 1)
		vCheckBSI(b, m, "original-after-mutating-clone")
	case 6:
		data, err := b.MarshalBinary()
		vsym.Assert(err == nil, "marshal-ok")
		c := NewDefaultBSI()
		vsym.Assert(c.UnmarshalBinary(data) == nil, "unmarshal-ok")
		vCheckBSI(c, m, "marshal")
	case 8:
		c := vStepCol()
		fs := roaring.NewBitmap()
		fs.Add(uint32(c))
		_, ex := m.get(c)
		vsym.Assume(ex)
		b.Increment(fs)
		v, _ := m.get(c)
		m.set(c, v+1)
		vCheckBSI(b, m, "post")
		// the caller's found-set stays the caller's: changing it later must not change the index
		fs.Add(uint32((vsym.Param("cb")) + 3))
		fs.Remove(uint32(c))
	case 9:
		o, mo := vGenBSIAt(1, vsym.Param("w2"), 2)
		args := []*BSI{o}
		m.set(mo.ps[0].col, mo.ps[0].val)
		if w3 := vsym.Param("w3"); w3 > 0 {
			// a second argument of another width (all on disjoint columns)
			o2, mo2 := vGenBSIAt(1, w3, 3)
			args = append(args, o2)
			m.set(mo2.ps[0].col, mo2.ps[0].val)
		}
		b.ParOr(vsym.Param("par"), args...)
	case 10:
		ow := w
		if w2 := vsym.Param("w2"); w2 > 0 {
			ow = w2 // a wider argument makes Add create new planes in the receiver
		}
		o, mo := vGenBSIAt(1, ow, vsym.Param("sc"))
		oc := mo.ps[0].col
		cur, ex := m.get(oc)
		b.Add(o)
		m.set(oc, vsym.IteI64(ex, cur, 0)+mo.ps[0].val)
		vCheckBSI(b, m, "post")
		// value semantics: the argument index can be changed afterwards without affecting the sum
		o.SetValue(oc, 0)
		o.SetValue(oc+1, 1)
	}
	vCheckBSI(b, m, "post")
	vsym.Reach("end")
}

func VerifC20Query() {
	vValN = 0
	nv, w, q := vsym.Param("nv"), vsym.Param("w"), vsym.Param("q")
	par := vsym.Param("par")
	b, m := vGenBSI(nv, w)
	cb := uint64(vsym.Param("cb"))
	cols := []uint64{cb, cb + 1, cb + 2}
	var found *roaring.Bitmap
	inFound := func(c uint64) bool { return true }
	switch vsym.Param("fs") {
	case 1:
		found = b.GetExistenceBitmap()
	case 2:
		found = roaring.BitmapOf(uint32(cb))
		inFound = func(c uint64) bool { return c == cb }
	case 3:
		found = roaring.BitmapOf(uint32(cb + 1))
		inFound = func(c uint64) bool { return c == cb+1 }
		_, e := m.get(cb + 1)
		vsym.Assume(e)
	}
	pred := func(op Operation, v, lo, hi int64) bool {
		switch op {
		case LT:
			return v < lo
		case LE:
			return v <= lo
		case EQ:
			return v == lo
		case GE:
			return v >= lo
		case GT:
			return v > lo
		case RANGE:
			return vsym.And(v >= lo, v <= hi)
		}
		return false
	}
	checkCols := func(res *roaring.Bitmap, want func(c uint64, v int64) bool, label string) {
		for _, c := range cols {
			v, e := m.get(c)
			vsym.Assert(res.Contains(uint32(c)) == vsym.And(vsym.And(e, inFound(c)), want(c, v)), label)
		}
		vsym.Assert(res.GetCardinality() <= 2, label+"-extra-columns")
	}
	switch q {
	case 0:
		op := Operation(vsym.Param("cop"))
		lo, hi := vVal(w), vVal(w)
		if op == RANGE {
			vsym.Assume(lo <= hi)
		}
		res := b.CompareValue(par, op, lo, hi, found)
		checkCols(res, func(c uint64, v int64) bool { return pred(op, v, lo, hi) }, "compare")
		res.Add(uint32(cb + 7))
		res.Remove(uint32(cb))
		res2 := b.CompareValue(par, op, lo, hi, found)
		checkCols(res2, func(c uint64, v int64) bool { return pred(op, v, lo, hi) }, "compare-after-mutating-result")
		vCheckBSI(b, m, "index-after-mutating-result")
	case 2:
		any := false
		for _, c := range cols {
			_, e := m.get(c)
			any = vsym.Or(any, vsym.And(e, inFound(c)))
		}
		vsym.Assume(any)
		mn := b.MinMax(par, MIN, found)
		mx := b.MinMax(par, MAX, found)
		okMin, okMax, hitMin, hitMax := true, true, false, false
		for _, c := range cols {
			v, e := m.get(c)
			in := vsym.And(e, inFound(c))
			okMin = vsym.And(okMin, vsym.Implies(in, mn <= v))
			okMax = vsym.And(okMax, vsym.Implies(in, mx >= v))
			hitMin = vsym.Or(hitMin, vsym.And(in, v == mn))
			hitMax = vsym.Or(hitMax, vsym.And(in, v == mx))
		}
		vsym.Assert(vsym.And(okMin, hitMin), "min")
		vsym.Assert(vsym.And(okMax, hitMax), "max")
	case 3:
		var want int64
		cnt := 0
		for _, c := range cols {
			v, e := m.get(c)
			in := vsym.And(e, inFound(c))
			want += vsym.IteI64(in, v, 0)
			cnt += vsym.B2I(in)
		}
		fsum := found
		if fsum == nil {
			fsum = b.GetExistenceBitmap()
		}
		sum, n := b.Sum(fsum)
		vsym.Assert(sum == want, "sum")
		vsym.Assert(n == uint64(cnt), "sum-count")
	case 4:
		v1, v2 := vVal(w), vVal(w)
		res := b.BatchEqual(par, []int64{v1, v2})
		for _, c := range cols {
			v, e := m.get(c)
			vsym.Assert(res.Contains(uint32(c)) == vsym.And(e, vsym.Or(v == v1, v == v2)), "batch-equal")
		}
		vCheckBSI(b, m, "index-after-batch-equal")
		if vsym.Param("full") == 1 {
			// every value of the width is asked for: the result is "all columns"; it must still be the caller's own bitmap
			all := make([]int64, 0, 1<<uint(w))
			for v := int64(0); v < int64(1)<<uint(w); v++ {
				all = append(all, v)
			}
			res2 := b.BatchEqual(par, all)
			for _, c := range cols {
				_, e := m.get(c)
				vsym.Assert(res2.Contains(uint32(c)) == e, "batch-equal")
			}
			res2.Remove(uint32(cols[0]))
			res2.Add(uint32(cols[2] + 7))
			vCheckBSI(b, m, "index-after-batch-equal")
		}
	case 5:
		tr := b.Transpose()
		it := b.IntersectAndTranspose(par, b.GetExistenceBitmap())
		twc := b.TransposeWithCounts(par, b.GetExistenceBitmap())
		for val := int64(0); val < int64(1)<<uint(w); val++ {
			want := false
			cnt := 0
			for _, c := range cols {
				v, e := m.get(c)
				want = vsym.Or(want, vsym.And(e, v == val))
				cnt += vsym.B2I(vsym.And(e, v == val))
			}
			vsym.Assert(tr.Contains(uint32(val)) == want, "transpose")
			vsym.Assert(it.Contains(uint32(val)) == want, "intersect-and-transpose")
			got, ex := twc.GetValue(uint64(val))
			vsym.Assert(ex == (cnt > 0), "transpose-with-counts-exists")
			vsym.Assert(vsym.Implies(cnt > 0, got == int64(cnt)), "transpose-with-counts")
		}
	}
	vsym.Reach("end")
}
